"""C15 - created shapes and primitives (narrow): "a primitive's mesh always reflects its
current parameters".

Decides: each primitive's parameters live in the hashed DataStore and every one of them is
forwarded by the constructor and read by `_create_mesh`; the lazy mesh getters serve the memo
only through the verifying Cache API and regenerate through `_create_mesh`; analytic overrides
read parameters only; vertices / faces cannot be set; `apply_transform` changes parameters only
through PrimitiveAttributes (hash moves) and never multiplies sizes by a possibly negative factor.
"""
from __future__ import annotations

import ast

from ..cfg import CFG
from ..effects import Effects
from ..index import Index
from ..preserve import check_surgery
from ..report import AnalysisError, key_of
from .c01 import hashed_data

LEVEL = "other"


def _defaults(sub):
    init = sub.methods.get("__init__")
    if init is None:
        return None, None
    for st in ast.walk(init.node):
        if isinstance(st, ast.Assign) and isinstance(st.targets[0], ast.Name) and st.targets[0].id == "defaults" and isinstance(st.value, ast.Dict):
            return [k.value for k in st.value.keys if isinstance(k, ast.Constant)], init
        if isinstance(st, ast.keyword) and st.arg == "defaults" and isinstance(st.value, ast.Dict):
            return [k.value for k in st.value.keys if isinstance(k, ast.Constant)], init
    return None, init


def check(run):
    ix = Index(run.repo)
    ef = Effects(ix)
    run.analysed.update(ix.stats())
    run.rule("R1", "every default parameter is stored through PrimitiveAttributes (hashed DataStore), forwarded by the constructor and read by _create_mesh")
    run.rule("R2", "memo soundness: properties of the primitive classes read only parameters (hashed data) and the memo")
    run.rule("R3", "lazy mesh: vertices / faces / face_normals getters read the memo through the verifying API and regenerate via _create_mesh; their setters store nothing; _create_mesh stores the three arrays")
    run.rule("R4", "apply_transform changes parameters only through PrimitiveAttributes attribute stores; size parameters are never multiplied by a factor that can be negative; result must be rigid")
    run.rule("R5", "PrimitiveAttributes: __setattr__ stores parameters in the owner's DataStore (shared), refuses unknown keys and immutable primitives; __getattr__ reads the same store")

    P = ix.cls("trimesh.primitives.Primitive")
    PA = ix.cls("trimesh.primitives.PrimitiveAttributes")
    subs = [s for s in ix.all_subclasses(P)]
    run.floor("primitive subclasses", len(subs), 5)
    total_params = 0
    # derived parameter names served by PrimitiveAttributes.__getattr__ from another stored key (`center` -> `transform`)
    derived = {}
    for st in ast.walk(PA.methods["__getattr__"].node):
        if isinstance(st, ast.If) and isinstance(st.test, ast.Compare) and ast.unparse(st.test.left) == "key" \
                and isinstance(st.test.comparators[0], ast.Constant):
            for r in st.body:
                if isinstance(r, ast.Return):
                    for sub_ in ast.walk(r.value):
                        if isinstance(sub_, ast.Subscript) and ast.unparse(sub_.value) == "self._data" and isinstance(sub_.slice, ast.Constant):
                            derived[st.test.comparators[0].value] = sub_.slice.value
    run.analysed["derived_parameters"] = derived
    for sub in sorted(subs, key=lambda c: c.name):
        defaults, init = _defaults(sub)
        if defaults is None:
            raise AnalysisError(f"anchor vanished: defaults of {sub.name}")
        total_params += len(defaults)
        # constructor: self.primitive = PrimitiveAttributes(self, defaults=..., kwargs={...}, mutable=...)
        call = None
        for st in ast.walk(init.node):
            if isinstance(st, ast.Call) and ast.unparse(st.func).endswith("PrimitiveAttributes"):
                call = st
        if call is None:
            raise AnalysisError(f"anchor vanished: PrimitiveAttributes(...) in {sub.name}.__init__")
        kw = next((k.value for k in call.keywords if k.arg == "kwargs"), call.args[2] if len(call.args) > 2 else None)
        fwd = set()
        if isinstance(kw, ast.Dict):
            fwd = {k.value for k in kw.keys if isinstance(k, ast.Constant)}
        elif isinstance(kw, ast.Name):
            for st in ast.walk(init.node):
                if isinstance(st, ast.Assign) and isinstance(st.targets[0], ast.Name) and st.targets[0].id == kw.id and isinstance(st.value, ast.Dict):
                    fwd |= {k.value for k in st.value.keys if isinstance(k, ast.Constant)}
                if isinstance(st, ast.Assign) and isinstance(st.targets[0], ast.Subscript) and ast.unparse(st.targets[0].value) == kw.id \
                        and isinstance(st.targets[0].slice, ast.Constant):
                    fwd.add(st.targets[0].slice.value)
        owner_ok = bool(call.args) and ast.unparse(call.args[0]) == "self"
        tgt_ok = any(isinstance(st, ast.Assign) and ast.unparse(st.targets[0]) == "self.primitive" and st.value is call for st in ast.walk(init.node))
        for d in defaults:
            ok = d in fwd and owner_ok and tgt_ok
            run.instance("R1", init.where, f"{sub.name}.{d}: forwarded by the constructor into PrimitiveAttributes(self, ...)", ok)
            if not ok:
                run.violation("R1", init.where, f"{sub.name}: parameter `{d}` is not forwarded into the hashed parameter store by the constructor",
                              key=key_of("C15-R1", sub.name, d, "forward"))
        cm = sub.methods.get("_create_mesh")
        if cm is None:
            raise AnalysisError(f"anchor vanished: {sub.name}._create_mesh")
        s = ef.summary(cm, sub)
        read_keys = {p[1].strip("[]") for (root, p, t) in s.reads if root == cm.params[0] and len(p) >= 2 and p[0] == "_data"}
        read_keys |= {derived[k] for k in list(read_keys) if k in derived}
        for d in defaults:
            ok = d in read_keys
            run.instance("R1", cm.where, f"{sub.name}._create_mesh reads parameter `{d}`", ok)
            if not ok:
                run.violation("R1", cm.where, f"{sub.name}._create_mesh never reads parameter `{d}`: the mesh cannot reflect it "
                                              f"(parameters read: {sorted(read_keys)})", key=key_of("C15-R1", sub.name, d, "unread"))
        # ---- R3 _create_mesh stores
        stores = {st.targets[0].slice.value for st in ast.walk(cm.node) if isinstance(st, ast.Assign) and isinstance(st.targets[0], ast.Subscript)
                  and ast.unparse(st.targets[0].value) == "self._cache" and isinstance(st.targets[0].slice, ast.Constant)}
        ok = {"vertices", "faces"} <= stores
        run.instance("R3", cm.where, f"{sub.name}._create_mesh stores {sorted(stores)} through the verifying API", ok)
        if not ok:
            run.violation("R3", cm.where, f"{sub.name}._create_mesh does not store vertices and faces into the memo", key=key_of("C15-R3", sub.name, "stores"))
        # ---- R2 properties of the subclass
        for name, g in sorted(sub.getters.items()):
            sm = ef.summary(g, sub)
            bad = sorted({".".join(p) for (root, p, t) in sm.reads if root == g.params[0] and p and p[0] not in ("_data", "_cache", "__class__")
                          and not (p[0] in ("_visual", "visual", "metadata") and name in ("visual",))})
            ok = not bad
            run.instance("R2", g.where, f"{sub.name}.{name}: reads parameters / memo only" + (f"; also {bad[:4]}" if bad else ""), ok)
            if not ok:
                run.violation("R2", g.where, f"{sub.name}.{name} depends on state outside the hashed parameters: {bad[:5]}",
                              key=key_of("C15-R2", sub.name, name))
    run.floor("primitive parameters", total_params, 14)

    # ---- R3 lazy getters on Primitive
    for name in ("vertices", "faces", "face_normals"):
        g = P.getters.get(name)
        st_ = P.setters.get(name)
        if g is None or st_ is None:
            raise AnalysisError(f"anchor vanished: Primitive.{name} getter/setter")
        txt = ast.unparse(g.node)
        ok = "self._create_mesh()" in txt and f"self._cache['{name}']" in txt and "self._cache.cache" not in txt
        run.instance("R3", g.where, f"Primitive.{name}: memo read through the verifying API, regenerated by _create_mesh", ok)
        if not ok:
            run.violation("R3", g.where, f"Primitive.{name} no longer serves the memo through the verifying Cache API with _create_mesh as fallback",
                          key=key_of("C15-R3", name, "getter"))
        sm = ef.summary(st_, P)
        writes = [(p, k) for (root, p, k) in sm.writes if root == st_.params[0]]
        ok = not writes
        run.instance("R3", st_.where, f"Primitive.{name} setter stores nothing ({writes})", ok)
        if not ok:
            run.violation("R3", st_.where, f"Primitive.{name} can be assigned ({writes}): the mesh would no longer be a function of the parameters",
                          key=key_of("C15-R3", name, "setter"))
    init = P.methods["__init__"]
    txt = ast.unparse(init.node)
    ok = "self._data.clear()" in txt and "super().__init__()" in txt
    run.instance("R3", init.where, "Primitive starts from an empty DataStore; cache keyed on it by Trimesh.__init__", ok)
    if not ok:
        run.violation("R3", init.where, "Primitive.__init__ no longer starts from an empty hashed store", key=key_of("C15-R3", "init"))

    # ---- R4 apply_transform
    at = P.methods["apply_transform"]
    sm = ef.summary(at, P)
    bad = [(".".join(p), k) for (root, p, k) in sm.writes if root == at.params[0] and k != "memo" and p and p[0] != "_data"]
    ok = not bad
    run.instance("R4", at.where, f"apply_transform writes only parameters in the DataStore ({sorted({'.'.join(p) for (r, p, k) in sm.writes if r == at.params[0] and k != 'memo'})})", ok)
    if not ok:
        run.violation("R4", at.where, f"Primitive.apply_transform writes state other than the hashed parameters: {bad[:4]}", key=key_of("C15-R4", "writes"))
    # the factor by role: what the size parameters are multiplied by (`prim.primitive.radius *= f`, `... = ... * f`)
    scale_name = None
    for st in ast.walk(at.node):
        if isinstance(st, ast.AugAssign) and isinstance(st.op, ast.Mult) and isinstance(st.target, ast.Attribute) and isinstance(st.value, ast.Name):
            scale_name = st.value.id
    scale_def = None
    for st in ast.walk(at.node):
        if isinstance(st, ast.Assign) and isinstance(st.targets[0], ast.Name) and st.targets[0].id == (scale_name or "scale"):
            scale_def = st.value
    if scale_def is None:
        run.instance("R4", at.where, "the factor multiplied into the size parameters is not a local with one definition - NOT decided", True, nontrivial=False)
        run.assume("Primitive.apply_transform: scale factor not recognised")
        nonneg, why = True, ""
    else:
        # locals with one definition and module constants are replaced by their definitions before the sign is judged
        import copy as _copy

        class _Sub(ast.NodeTransformer):
            def visit_Name(self, n_):
                ds = [a_.value for a_ in ast.walk(at.node) if isinstance(a_, ast.Assign) and len(a_.targets) == 1 and isinstance(a_.targets[0], ast.Name) and a_.targets[0].id == n_.id]
                if len(ds) == 1 and isinstance(n_.ctx, ast.Load) and n_.id not in at.params:
                    return self.visit(_copy.deepcopy(ds[0]))
                if n_.id in at.module.constants and isinstance(n_.ctx, ast.Load):
                    cst = at.module.constants[n_.id][-1]
                    if isinstance(cst, ast.Assign):
                        return _copy.deepcopy(cst.value)
                return n_

        folded = _Sub().visit(_copy.deepcopy(scale_def))
        nonneg, why = _nonnegative(folded)
        run.instance("R4", at.where, f"scale factor `{ast.unparse(scale_def)}` (= `{ast.unparse(folded)[:60]}`): {why}", nonneg is not False, nontrivial=nonneg is not None)
        if nonneg is None:
            run.assume("Primitive.apply_transform: sign of the scale factor not established either way")
    if nonneg is False:
        run.violation("R4", at.where,
                      f"the factor `{ast.unparse(scale_def)}` multiplied into height / radius / extents can be negative (reflections): the primitive "
                      f"gets negative sizes and its analytic volume no longer matches its mesh", key=key_of("C15-R4", "negative-scale"))
    # every path that stores a new transform has established is_rigid(<the stored value>) - whatever the branch layout
    from ..pathsum import summaries as _summaries
    n_store = 0
    ok = True
    for ps in _summaries(at.node):
        for st in ps.stmts:
            if isinstance(st, ast.Assign) and isinstance(st.targets[0], ast.Attribute) and st.targets[0].attr == "transform" \
                    and ast.unparse(st.targets[0].value).endswith(".primitive"):
                n_store += 1
                v = ast.unparse(st.value)
                if not any(ps.holds(f"{a}is_rigid({v})") is True for a in ("tf.", "transformations.", "")):
                    ok = False
    if n_store == 0:
        ok = False
    run.instance("R4", at.where, "non-rigid results are refused; the new transform is stored through PrimitiveAttributes", ok)
    if not ok:
        run.violation("R4", at.where, "Primitive.apply_transform no longer refuses a non-rigid result or stores the transform elsewhere", key=key_of("C15-R4", "rigid"))

    # ---- R5 PrimitiveAttributes
    ini = PA.methods["__init__"]
    txt = ast.unparse(ini.node)
    ok = "self._data = parent._data" in txt and "self._data.update(defaults)" in txt
    run.instance("R5", ini.where, "parameters live in the parent's DataStore (hashed with the mesh cache key)", ok)
    if not ok:
        run.violation("R5", ini.where, "PrimitiveAttributes no longer shares the owner's hashed DataStore", key=key_of("C15-R5", "shared-store"))
    sa = PA.methods["__setattr__"]
    # path summaries (sa/pathsum.py): the store into the DataStore happens only for known keys of a mutable primitive, and
    # an immutable primitive refuses known keys by raising - however the tests are nested or negated
    from ..pathsum import summaries
    kp, vp = sa.params[1], sa.params[2]

    def _store(st):
        return isinstance(st, ast.Assign) and ast.unparse(st.targets[0]) == f"self._data[{kp}]"

    paths = summaries(sa.node)
    storing = [ps for ps in paths if ps.has_stmt(_store)]
    ok = bool(storing)
    for ps in storing:
        st = next(s_ for s_ in ps.stmts if _store(s_))
        conv = ast.unparse(st.value) in (f"util.convert_like({vp}, self._defaults[{kp}])", f"util.convert_like(item={vp}, like_item=self._defaults[{kp}])")
        ok = ok and conv and ps.holds("self._mutable") is True and ps.holds(f"{kp} in self._defaults") is True
    for ps in paths:
        if ps.holds("self._mutable") is False and ps.holds(f"{kp} in self._defaults") is True and ps.exit != "raise":
            ok = False
    run.instance("R5", sa.where, "__setattr__ stores into the DataStore, refuses immutable primitives and unknown keys", ok)
    if not ok:
        run.violation("R5", sa.where, "PrimitiveAttributes.__setattr__ protocol changed", key=key_of("C15-R5", "setattr"))
    ga = PA.methods["__getattr__"]
    txt = ast.unparse(ga.node)
    ok = "self._data[key]" in txt and "key in self._defaults" in txt
    run.instance("R5", ga.where, "__getattr__ reads the same DataStore", ok)
    if not ok:
        run.violation("R5", ga.where, "PrimitiveAttributes.__getattr__ no longer reads the hashed store", key=key_of("C15-R5", "getattr"))
    # ---- R6 memoised helpers must not hand out shared mutable arrays
    run.rule("R6", "no function memoised at module level (lru_cache / cache) hands the same mutable array to more than one mesh")
    probe = ast.parse(_R6_POSITIVE)
    hits = _memo_leaks(probe)
    if len(hits) != 1:
        raise AnalysisError("R6 self-check failed: the rule no longer matches its built-in positive example")
    run.instance("R6", "built-in positive example", "rule matches the reference leak", True, nontrivial=False)
    n_memo = 0
    for m in ix.modules.values():
        for name, fn, use, line in _memo_leaks(m.tree):
            n_memo += 1
            run.instance("R6", f"{m.rel}:{line}", f"result of memoised `{name}` used as `{use}`", False)
            run.violation("R6", f"{m.rel}:{line} {fn}",
                          f"`{use}` passes an object returned by the memoised function `{name}` on without copying it: every mesh created "
                          f"with the same arguments shares that array, so an in-place edit of one changes the others",
                          key=key_of("C15-R6", m.name, name, fn))
    run.instance("R6", "trimesh/**", f"memoised functions handing out mutable results: {n_memo}", n_memo == 0)
    # ------------------------------------------------------------------ R7 parameter reads hand out the stored (tracked) array
    run.rule("R7", "reading an array parameter of a primitive returns the stored TrackedArray itself (subclass-preserving conversion): an in-place edit through it marks the "
                   "parameter changed, so the lazily built mesh is regenerated")
    from ..provenance import Prov
    cl = ix.func("trimesh.util:convert_like")
    pcl = Prov(ix, cl)
    arr_rets = []
    for r in ast.walk(cl.node):
        if isinstance(r, ast.Return) and r.value is not None and pcl.cfg.nodes_of.get(id(r)):
            g = pcl.guards(r)
            if any("numpy.ndarray" in x and "isinstance(P_like" in x for x in g):
                arr_rets.append(pcl.canon(r.value, r, strip=False))
    ok = bool(arr_rets) and all(t.startswith("numpy.asanyarray(P_item") for t in arr_rets)
    run.instance("R7", cl.where, f"util.convert_like (array branch) returns {arr_rets}", ok)
    if not ok:
        run.violation("R7", cl.where, f"util.convert_like converts array parameters with {arr_rets}: anything but np.asanyarray hands out a plain window on the stored TrackedArray, "
                                      f"so `prim.primitive.extents[0] = x` changes the parameter without dirtying its hash and the mesh stays that of the old parameters",
                      key=key_of("C15-R7", "convert_like"))
    ga = ix.func("trimesh.primitives:PrimitiveAttributes.__getattr__")
    t = ast.unparse(ga.node)
    ok = "util.convert_like(self._data[key], self._defaults[key])" in t
    run.instance("R7", ga.where, "PrimitiveAttributes.__getattr__ reads parameters through util.convert_like(self._data[key], default)", ok)
    if not ok:
        run.instance("R7", ga.where, "parameter read path changed - NOT decided", True, nontrivial=False)
        run.assume("PrimitiveAttributes.__getattr__ no longer reads through util.convert_like: R7 not decided")
    # ------------------------------------------------------------------ R8 rings of a polygon are treated alike before triangulation
    run.rule("R8", "triangulate_polygon (earcut): the exterior ring and every interior ring are passed with the same point convention (the same expression applied to "
                   "`polygon.exterior` and to each interior), because ring offsets are cumulative lengths")
    tp = ix.func("trimesh.creation:triangulate_polygon")
    ext = inter = None
    for st in ast.walk(tp.node):
        if isinstance(st, ast.Assign) and ast.unparse(st.targets[0]) == "vertices" and isinstance(st.value, ast.List) and len(st.value.elts) == 1 \
                and "polygon.exterior" in ast.unparse(st.value):
            ext = ast.unparse(st.value.elts[0])
        if isinstance(st, ast.Expr) and isinstance(st.value, ast.Call) and ast.unparse(st.value.func) == "vertices.extend" and st.value.args \
                and isinstance(st.value.args[0], ast.GeneratorExp) and "polygon.interiors" in ast.unparse(st.value.args[0]):
            ge = st.value.args[0]
            var = ge.generators[0].target.id if isinstance(ge.generators[0].target, ast.Name) else None
            inter = (ast.unparse(ge.elt), var)
    if ext is None or inter is None:
        run.instance("R8", tp.where, "earcut ring assembly not in the recognised form - NOT decided", True, nontrivial=False)
        run.assume("triangulate_polygon earcut ring assembly has an unrecognised form")
    else:
        same = ext.replace("polygon.exterior", "RING") == inter[0].replace(inter[1], "RING") if inter[1] else False
        run.instance("R8", tp.where, f"exterior: `{ext}`; interiors: `{inter[0]}`", same)
        if not same:
            run.violation("R8", tp.where, f"triangulate_polygon (earcut) prepares the exterior ring as `{ext}` but each interior as `{inter[0]}`: the rings no longer follow one "
                                          f"convention, so ring offsets / returned vertex indices are off for polygons with holes", key=key_of("C15-R8", "rings"))
    # ------------------------------------------------------------------ R9 analytic measures of the extrusion
    run.rule("R9", "Extrusion: area = 2 * profile area + |height| * TOTAL boundary length (exterior and holes), volume = profile area * |height| - as terms of the value graph")
    from ..dag import Values
    EX = ix.cls("trimesh.primitives.Extrusion")
    POLY = "P_self.primitive.polygon"
    H = "P_self.primitive.height"
    forms = {
        "area": ([f"abs({H} * {POLY}.length) + {POLY}.area * 2", f"abs({H}) * {POLY}.length + {POLY}.area * 2", f"abs({H}) * {POLY}.length + {POLY}.area * 2.0",
                  f"abs({H} * {POLY}.length) + {POLY}.area * 2.0"],
                 "2 * area(profile) + |height| * length(profile boundary incl. holes)"),
        "volume": ([f"abs({POLY}.area * {H})", f"{POLY}.area * abs({H})"], "area(profile) * |height|"),
    }
    for name, (tpls, what) in forms.items():
        g_ = EX.getters.get(name) or EX.methods.get(name)
        if g_ is None:
            continue
        Vx = Values(ix, g_)
        for r_ in Vx.returns():
            node_ = Vx.value(r_.value, r_)
            ok = any(Vx.match(t_, node_) is not None for t_ in tpls)
            if ok:
                run.instance("R9", g_.where, f"Extrusion.{name} == {what}", True)
                continue
            txt_ = Vx.text(node_, 6, 200)
            # positive evidence of a wrong measure: the boundary length leaves out the holes
            if name == "area" and ".exterior.length" in txt_ and f"{POLY}.length" not in txt_.replace(".exterior.length", ""):
                run.instance("R9", g_.where, f"Extrusion.area := `{txt_[:90]}`", False)
                run.violation("R9", g_.where, f"Extrusion.area uses the length of the exterior ring only (`{txt_[:90]}`): the walls of every hole of the profile are missing from the area",
                              key=key_of("C15-R9", "area-exterior-only"))
            else:
                run.instance("R9", g_.where, f"Extrusion.{name} := `{txt_[:80]}` - not in a recognised form, NOT decided", True, nontrivial=False)
                run.assume(f"Extrusion.{name}: the analytic formula is not in a recognised form")

    # ------------------------------------------------------------------ R10 placements are proper rotations
    run.rule("R10", "creation.py: a placement matrix written out by hand (np.diag / np.array literal inside a function that returns or applies a transform) has no "
                    "entry that can be negative on its diagonal - `np.sign(x)`, a negative constant - unless paired: a single sign flip is a mirror image, the shape "
                    "comes out inside-out / upside-down for exactly the inputs that take that branch")
    n10 = 0
    for f_ in ix.all_functions:
        if f_.module.name != "trimesh.creation" or f_.parent is not None:
            continue
        src_ = ast.unparse(f_.node)
        if "np.diag(" not in src_ and "numpy.diag(" not in src_:
            continue
        for c_ in ast.walk(f_.node):
            if not (isinstance(c_, ast.Call) and ast.unparse(c_.func) in ("np.diag", "numpy.diag") and len(c_.args) == 1 and isinstance(c_.args[0], (ast.List, ast.Tuple))
                    and len(c_.args[0].elts) in (3, 4)):
                continue
            n10 += 1
            ent = c_.args[0].elts[:3]
            flips = []
            unknown = False
            for x_ in ent:
                t_ = ast.unparse(x_)
                if isinstance(x_, ast.Constant) and isinstance(x_.value, (int, float)):
                    if x_.value < 0:
                        flips.append(t_)
                elif isinstance(x_, ast.UnaryOp) and isinstance(x_.op, ast.USub) and isinstance(x_.operand, ast.Constant):
                    flips.append(t_)
                elif "sign(" in t_ or "copysign(" in t_:
                    flips.append(t_)
                else:
                    unknown = True
            where_ = f"{f_.module.rel}:{c_.lineno} {f_.qualname}"
            if len(flips) % 2 == 1 and not unknown:
                run.instance("R10", where_, f"`{ast.unparse(c_)[:70]}`: entries that can be negative: {flips}", False)
                run.violation("R10", where_, f"`{ast.unparse(c_)[:80]}` is used as a placement: its determinant is negative whenever `{flips[0]}` is, i.e. a mirror image instead "
                                             f"of a rotation (the primitive is built upside-down / its faces wound inwards for those inputs)",
                              key=key_of("C15-R10", f_.qualname, "mirror"))
            else:
                run.instance("R10", where_, f"`{ast.unparse(c_)[:70]}`: sign flips {flips}{' (other entries not constant)' if unknown else ''}", True, nontrivial=not unknown)
    run.instance("R10", "trimesh/creation.py", f"hand-written diagonal placements examined: {n10}", True, nontrivial=False)

    # ------------------------------------------------------------------ R13 a placement applied to raw vertices re-winds the faces for mirrors
    run.rule("R13", "creation.py: a function that maps the vertices of the mesh it builds through a caller-supplied matrix with transform_points (instead of "
                    "Trimesh.apply_transform) reverses the faces under `flips_winding(<that matrix>)`: a mirrored placement otherwise yields an inside-out solid")
    n13 = 0
    for f_ in ix.all_functions:
        if f_.module.name != "trimesh.creation" or f_.parent is not None:
            continue
        for c_ in ast.walk(f_.node):
            if not (isinstance(c_, ast.Call) and ast.unparse(c_.func).split(".")[-1] == "transform_points" and len(c_.args) + len(c_.keywords) >= 2):
                continue
            args_ = ix.call_args(c_, "trimesh.transformations.transform_points") if hasattr(ix, "call_args") else {}
            mat = args_.get("matrix") if args_ else (c_.args[1] if len(c_.args) > 1 else None)
            pts = args_.get("points") if args_ else (c_.args[0] if c_.args else None)
            if not (isinstance(mat, ast.Name) and mat.id in f_.params and isinstance(pts, ast.Name)):
                continue
            # the mapped points become the vertices of a Trimesh built by this function
            builds = [k_ for k_ in ast.walk(f_.node) if isinstance(k_, ast.Call) and ast.unparse(k_.func).split(".")[-1] in ("Trimesh", "trimesh_type")
                      and any(kw_.arg == "vertices" for kw_ in k_.keywords)]
            if not builds:
                continue
            n13 += 1
            flips = [x_ for x_ in ast.walk(f_.node) if isinstance(x_, ast.If) and any(isinstance(y_, ast.Call) and ast.unparse(y_.func).split(".")[-1] == "flips_winding"
                     and any(isinstance(n_, ast.Name) and n_.id == mat.id for n_ in ast.walk(y_)) for y_ in ast.walk(x_.test))]
            rewinds = [x_ for x_ in flips if any(isinstance(y_, ast.Call) and ast.unparse(y_.func).split(".")[-1] in ("fliplr",) for y_ in ast.walk(x_))
                       or any(isinstance(y_, ast.Subscript) and "::-1" in ast.unparse(y_) for y_ in ast.walk(x_))]
            ok = bool(rewinds)
            where_ = f"{f_.module.rel}:{c_.lineno} {f_.qualname}"
            run.instance("R13", where_, f"`{ast.unparse(c_)[:60]}`: faces re-wound under flips_winding({mat.id}): {ok}", ok)
            if not ok:
                run.violation("R13", where_, f"`{f_.qualname}` places its vertices with `{ast.unparse(c_)[:60]}` and builds the mesh from the faces as they are: for a mirrored "
                                             f"placement (det < 0) every face then points inwards - negative volume, is_volume False - for everything built on it",
                              key=key_of("C15-R13", f_.qualname))
    if n13 == 0:
        run.instance("R13", "trimesh/creation.py", "no creation function places raw vertices with transform_points and a caller matrix (placement through apply_transform re-winds by itself)", True, nontrivial=False)
    from ..interiorpt import hole_seed_rule
    hole_seed_rule(run, ix, "R11", "C15")
    from ..rigidrule import rigid_rule
    rigid_rule(run, ix, "R12", "C15")
    return {
        "explanation": "Per primitive class: the defaults table, the constructor's forwarding dict and the parameters read by _create_mesh "
        "(effect analysis through PrimitiveAttributes.__getattr__ into the shared DataStore) must coincide; lazy getters use the "
        "verifying memo API; analytic overrides read parameters only; apply_transform writes parameters only, with a scale factor "
        "that cannot be negative. Decides the last sentence of C15; watertightness, winding and analytic measures of the creation "
        "functions are values of index arithmetic and are not decided.",
    }


def _nonnegative(e):
    """is the expression provably >= 0 or NaN for every real input (NaN fails the `abs(scale - 1) > tol` test)?"""
    if isinstance(e, ast.Call):
        fn = ast.unparse(e.func).split(".")[-1]
        if fn in ("abs", "fabs", "absolute"):
            return True, "absolute value"
        if fn in ("float", "float64") and e.args:
            return _nonnegative(e.args[0])
        if fn == "cbrt":
            return False, "real cube root keeps the sign of the determinant"
        if fn == "sqrt":
            return True, "square root (NaN for negative input)"
    if isinstance(e, ast.BinOp) and isinstance(e.op, ast.Pow):
        try:
            ex = eval(compile(ast.Expression(e.right), "<exp>", "eval"), {})  # a literal fraction such as 1.0 / 3.0
        except Exception:
            ex = None
        base = ast.unparse(e.left)
        if isinstance(ex, float) and 0 < ex < 1 and "np.linalg.det" in base:
            return True, "numpy float raised to a fractional power: NaN for negative determinants, which takes the unscaled branch"
        if isinstance(ex, (int, float)) and ex == int(ex) and int(ex) % 2 == 0:
            return True, "even power"
    return None, "sign not established either way - NOT decided"


_R6_POSITIVE = """
import functools
import numpy as np

@functools.lru_cache(maxsize=None)
def _unit(n):
    return np.zeros((n, 3)), np.arange(n * 3).reshape((-1, 3))

def make(n, radius):
    unit, faces = _unit(n)
    return Mesh(vertices=unit * radius, faces=faces)
"""


def _memo_leaks(tree):
    """(memoised function, enclosing function, offending use, line) for every value returned by a function decorated with
    lru_cache / cache that reaches a call argument or a return without passing a copying call or arithmetic"""
    memo = set()
    for n in ast.walk(tree):
        if isinstance(n, (ast.FunctionDef, ast.AsyncFunctionDef)):
            for d in n.decorator_list:
                txt = ast.unparse(d.func if isinstance(d, ast.Call) else d)
                if txt.split(".")[-1] in ("lru_cache", "cache", "cached", "memoize"):
                    # returning only immutable scalars / strings is fine
                    rets = [r.value for r in ast.walk(n) if isinstance(r, ast.Return) and r.value is not None]
                    if all(isinstance(r, ast.Constant) or (isinstance(r, ast.Call) and ast.unparse(r.func) in ("str", "int", "float", "bool", "tuple", "bytes", "frozenset"))
                           for r in rets):
                        continue
                    memo.add(n.name)
    out = []
    if not memo:
        return out
    COPIERS = ("array", "copy", "deepcopy", "ascontiguousarray", "astype", "tolist", "list")
    for fn in ast.walk(tree):
        if not isinstance(fn, (ast.FunctionDef, ast.AsyncFunctionDef)) or fn.name in memo:
            continue
        tainted = {}
        for st in ast.walk(fn):
            if isinstance(st, ast.Assign) and isinstance(st.value, ast.Call) and ast.unparse(st.value.func).split(".")[-1] in memo:
                names = []
                for t in st.targets:
                    for x in ast.walk(t):
                        if isinstance(x, ast.Name):
                            names.append(x.id)
                for x in names:
                    tainted[x] = ast.unparse(st.value.func).split(".")[-1]
        if not tainted:
            continue
        parents = {}
        for n in ast.walk(fn):
            for c in ast.iter_child_nodes(n):
                parents[id(c)] = n
        for n in ast.walk(fn):
            if isinstance(n, ast.Name) and n.id in tainted and isinstance(n.ctx, ast.Load):
                par = parents.get(id(n))
                if isinstance(par, ast.keyword):
                    par2 = parents.get(id(par))
                else:
                    par2 = par
                if isinstance(par, (ast.BinOp, ast.UnaryOp, ast.Compare, ast.Subscript)) and not (isinstance(par, ast.Subscript) and par.value is n and False):
                    if isinstance(par, ast.Subscript):
                        # a slice / element of the shared array is still shared storage when passed on
                        gp = parents.get(id(par))
                        if isinstance(gp, (ast.Call, ast.keyword, ast.Return)):
                            out.append((tainted[n.id], fn.name, ast.unparse(par), n.lineno))
                    continue
                if isinstance(par2, ast.Call):
                    fname = ast.unparse(par2.func).split(".")[-1]
                    if fname in COPIERS or fname in ("len", "isinstance", "range", "enumerate", "zip"):
                        continue
                    out.append((tainted[n.id], fn.name, f"{ast.unparse(par2.func)}(... {n.id} ...)", n.lineno))
                elif isinstance(par, ast.Return) or isinstance(par, ast.Tuple) and isinstance(parents.get(id(par)), ast.Return):
                    out.append((tainted[n.id], fn.name, f"return {n.id}", n.lineno))
    return out
