"""Case specialisation: a function partially evaluated under facts about the values of some expressions.

A rule that says "for a boolean mask the inverse is arange(mask.sum()), for an integer mask arange(len(mask))" should not
depend on whether the source distinguishes the two cases with an if / elif chain, with a conditional expression, with a
lookup in a literal dict, or first tests `kind in ('b', 'i')` and then `kind == 'b'`.  `specialise(fnode, facts)` returns a
copy of the function in which

  * every expression whose source text is a key of `facts` is replaced by that constant,
  * comparisons (== != in not in is is not) between constants, `not`, `and` / `or` with decided operands, conditional
    expressions with a decided test and subscripts of literal dicts with a constant key are folded,
  * `if` statements with a decided test are replaced by the arm taken (an `assert` of a true constant is dropped),
  * statements after a `return` / `raise` in the same block are dropped.

What is left is the code that runs in that case; the caller looks at it with the usual tools (templates, path summaries,
the fold pass for single-use locals).  Nothing is executed.
"""
from __future__ import annotations

import ast
import copy

_UNDECIDED = object()


def _const(e):
    if isinstance(e, ast.Constant):
        return e.value
    if isinstance(e, (ast.Tuple, ast.List, ast.Set)):
        vals = [_const(x) for x in e.elts]
        if any(v is _UNDECIDED for v in vals):
            return _UNDECIDED
        return tuple(vals)
    return _UNDECIDED


class _Spec(ast.NodeTransformer):
    def __init__(self, facts):
        self.facts = facts
        self.replaced = 0

    def visit(self, node):
        if isinstance(node, ast.expr) and not isinstance(getattr(node, "ctx", None), (ast.Store, ast.Del)):
            try:
                t = ast.unparse(node)
            except Exception:  # noqa
                t = None
            if t in self.facts:
                self.replaced += 1
                return ast.copy_location(ast.Constant(value=self.facts[t]), node)
        return super().visit(node)

    # ---- expressions
    def visit_Compare(self, node):
        self.generic_visit(node)
        if len(node.ops) != 1:
            return node
        a, b = _const(node.left), _const(node.comparators[0])
        if a is _UNDECIDED or b is _UNDECIDED:
            return node
        op = node.ops[0]
        try:
            if isinstance(op, ast.Eq):
                v = a == b
            elif isinstance(op, ast.NotEq):
                v = a != b
            elif isinstance(op, ast.In):
                v = a in b
            elif isinstance(op, ast.NotIn):
                v = a not in b
            elif isinstance(op, ast.Is) and (a is None or b is None):
                v = a is b
            elif isinstance(op, ast.IsNot) and (a is None or b is None):
                v = a is not b
            else:
                return node
        except TypeError:
            return node
        return ast.copy_location(ast.Constant(value=bool(v)), node)

    def visit_UnaryOp(self, node):
        self.generic_visit(node)
        if isinstance(node.op, ast.Not) and isinstance(node.operand, ast.Constant):
            return ast.copy_location(ast.Constant(value=not node.operand.value), node)
        return node

    def visit_BoolOp(self, node):
        self.generic_visit(node)
        is_and = isinstance(node.op, ast.And)
        keep = []
        for v in node.values:
            if isinstance(v, ast.Constant):
                if bool(v.value) != is_and:
                    # absorbing element: everything before it was neutral or undecided
                    if not keep:
                        return ast.copy_location(ast.Constant(value=v.value), node)
                    keep.append(v)
                    break
                continue  # neutral element
            keep.append(v)
        if not keep:
            return ast.copy_location(ast.Constant(value=is_and), node)
        if len(keep) == 1:
            return keep[0]
        node.values = keep
        return node

    def visit_IfExp(self, node):
        self.generic_visit(node)
        if isinstance(node.test, ast.Constant):
            return node.body if node.test.value else node.orelse
        return node

    def visit_Subscript(self, node):
        self.generic_visit(node)
        if isinstance(node.value, ast.Dict) and isinstance(node.ctx, ast.Load):
            k = _const(node.slice)
            if k is not _UNDECIDED:
                for kk, vv in zip(node.value.keys, node.value.values):
                    if kk is not None and _const(kk) == k and _const(kk) is not _UNDECIDED:
                        return vv
        return node

    # ---- statements
    def _block(self, body):
        out = []
        for st in body:
            r = self.visit(st)
            if r is None:
                continue
            for x in (r if isinstance(r, list) else [r]):
                out.append(x)
                if isinstance(x, (ast.Return, ast.Raise)):
                    return out
        return out

    def visit_If(self, node):
        node.test = self.visit(node.test)
        if isinstance(node.test, ast.Constant):
            return self._block(node.body if node.test.value else node.orelse)
        node.body = self._block(node.body) or [ast.copy_location(ast.Pass(), node)]
        node.orelse = self._block(node.orelse)
        return node

    def visit_Assert(self, node):
        self.generic_visit(node)
        if isinstance(node.test, ast.Constant) and node.test.value:
            return None
        return node

    def _with_blocks(self, node):
        for fld in ("body", "orelse", "finalbody"):
            blk = getattr(node, fld, None)
            if isinstance(blk, list) and blk and isinstance(blk[0], ast.stmt):
                setattr(node, fld, self._block(blk) or ([ast.copy_location(ast.Pass(), node)] if fld == "body" else []))
        for h in getattr(node, "handlers", []) or []:
            h.body = self._block(h.body) or [ast.copy_location(ast.Pass(), node)]
        return node

    def visit_For(self, node):
        node.iter = self.visit(node.iter)
        return self._with_blocks(node)

    def visit_While(self, node):
        node.test = self.visit(node.test)
        return self._with_blocks(node)

    def visit_With(self, node):
        node.items = [self.visit(i) for i in node.items]
        return self._with_blocks(node)

    def visit_Try(self, node):
        return self._with_blocks(node)

    def visit_FunctionDef(self, node):
        node.body = self._block(node.body) or [ast.copy_location(ast.Pass(), node)]
        return node


def specialise(fnode, facts):
    """(specialised copy of the function, number of fact sites replaced)"""
    f = copy.deepcopy(fnode)
    sp = _Spec(dict(facts))
    f = sp.visit(f)
    return ast.fix_missing_locations(f), sp.replaced
