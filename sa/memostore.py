"""Hand-written memo stores: a value put into `<o>._cache[key]` depends only on what `<o>`'s cache is keyed on.

The mesh / point-cloud / path caches are dumped when the HASHED data of their owner changes (vertices, faces; for a path
vertices and entities).  A value that also depends on the owner's visual, metadata or per-element attributes - state the
cache key does not cover - survives a change of that state: the classic instance is an exporter that memoises formatted
text "on the mesh" although the text contains the vertex colours.  The key may fold the extra state in explicitly
(`f"..._{hash(o.visual)}"`, as Trimesh.smooth_shaded does).

Static, per function: backward data slice of the stored value over local assignments (flow-insensitive), attribute reads
rooted at the cache owner classified by name."""
from __future__ import annotations

import ast

from .report import key_of

UNHASHED = {"visual": "visual", "_visual": "visual", "metadata": "metadata", "vertex_attributes": "vertex_attributes", "face_attributes": "face_attributes"}


def _owner_of(target):
    """`o._cache[k]` / `o._cache.cache[k]` -> 'o' (a plain name, `self` included)"""
    v = target.value
    if isinstance(v, ast.Attribute) and v.attr == "cache":
        v = v.value
    if isinstance(v, ast.Attribute) and v.attr == "_cache" and isinstance(v.value, ast.Name):
        return v.value.id
    return None


def _value_level(exprs, name):
    """does `name` occur in exprs other than as the operand of a shape-only read (np.shape(x), len(x), x.shape, x.ndim, x.dtype)?"""
    for e in exprs:
        shape_only = set()
        for n in ast.walk(e):
            if isinstance(n, ast.Call) and ast.unparse(n.func) in ("np.shape", "numpy.shape", "len", "np.ndim", "np.size") and n.args and isinstance(n.args[0], ast.Name):
                shape_only.add(id(n.args[0]))
            if isinstance(n, ast.Attribute) and n.attr in ("shape", "ndim", "dtype", "size") and isinstance(n.value, ast.Name):
                shape_only.add(id(n.value))
        for n in ast.walk(e):
            if isinstance(n, ast.Name) and n.id == name and isinstance(n.ctx, ast.Load) and id(n) not in shape_only:
                return True
    return False


def memo_store_rule(run, ix, rule, prop, module_filter=None, floor=20):
    run.rule(rule, "a value stored by hand into `<o>._cache[key]` depends only on state the cache of `<o>` is keyed on: no read of `<o>.visual`, `<o>.metadata` or "
                   "`<o>.*_attributes` reaches the value unless the key folds that state in (hash of it)")
    n = 0
    for f in ix.all_functions:
        if module_filter is not None and not module_filter(f.module.name):
            continue
        stores = []
        for st in ast.walk(f.node):
            if isinstance(st, ast.Assign) and len(st.targets) == 1 and isinstance(st.targets[0], ast.Subscript):
                o = _owner_of(st.targets[0])
                if o is not None:
                    stores.append((st, o, st.targets[0].slice, st.value))
            if isinstance(st, ast.Expr) and isinstance(st.value, ast.Call) and isinstance(st.value.func, ast.Attribute) and st.value.func.attr == "update" \
                    and st.value.args and isinstance(st.value.args[0], ast.Dict):
                base = st.value.func.value
                if isinstance(base, ast.Attribute) and base.attr == "cache":
                    base = base.value
                if isinstance(base, ast.Attribute) and base.attr == "_cache" and isinstance(base.value, ast.Name):
                    for k_, v_ in zip(st.value.args[0].keys, st.value.args[0].values):
                        if k_ is not None:
                            stores.append((st, base.value.id, k_, v_))
        if not stores:
            continue
        # nested functions are FuncInfos of their own: skip statements that belong to one
        inner = {id(x) for g in f.nested.values() for x in ast.walk(g.node)}
        defs = {}
        for st in ast.walk(f.node):
            if id(st) in inner:
                continue
            if isinstance(st, ast.Assign):
                for t in st.targets:
                    for nm in ast.walk(t):
                        if isinstance(nm, ast.Name) and isinstance(nm.ctx, ast.Store):
                            defs.setdefault(nm.id, []).append(st.value)
            elif isinstance(st, ast.AugAssign) and isinstance(st.target, ast.Name):
                defs.setdefault(st.target.id, []).append(st.value)
            elif isinstance(st, (ast.For, ast.comprehension)):
                for nm in ast.walk(st.target):
                    if isinstance(nm, ast.Name):
                        defs.setdefault(nm.id, []).append(st.iter)
        for st, owner, key, value in stores:
            if id(st) in inner:
                continue
            n += 1
            seen, todo, exprs = set(), [value], []
            while todo:
                e = todo.pop()
                exprs.append(e)
                for nm in ast.walk(e):
                    if isinstance(nm, ast.Name) and isinstance(nm.ctx, ast.Load) and nm.id not in seen and nm.id != owner:
                        seen.add(nm.id)
                        todo += defs.get(nm.id, [])
            hits = []
            for e in exprs:
                for a in ast.walk(e):
                    if isinstance(a, ast.Attribute) and isinstance(a.value, ast.Name) and a.value.id == owner and a.attr in UNHASHED:
                        hits.append((UNHASHED[a.attr], a))
            ktxt = ast.unparse(key)
            kexprs = [key] + [d for nm in ast.walk(key) if isinstance(nm, ast.Name) for d in defs.get(nm.id, [])]
            ktxt = " ".join(ast.unparse(k) for k in kexprs)
            uncovered = sorted({h for h, _ in hits if not (f"hash({owner}.{h})" in ktxt or f"{owner}.{h}.__hash__()" in ktxt or f"{owner}.{h}._hash" in ktxt)})
            where = f"{f.module.rel}:{st.lineno} {f.qualname}"
            ok = not uncovered
            run.instance(rule, where, f"`{owner}._cache[{ast.unparse(key)[:30]}]` := `{ast.unparse(value)[:40]}`: unhashed owner state in the value: {uncovered or 'none'}", ok,
                         nontrivial=bool(hits) or True)
            # a value computed from a DATA PARAMETER of the method (not the owner's state): the memo answers later calls made with
            # other arguments unless the key - or a token stored alongside and compared on the way in - depends on that
            # argument's value.  A token that looks at its shape only is positive evidence of a violation.
            if ok and f.kind not in ("setter",) and f.name not in ("__init__", "__setstate__", "__setitem__") and owner in f.params[:1]:
                pvals = [p_ for p_ in f.params[1:] if _value_level(exprs, p_)]
                if pvals:
                    others = [(k2, v2) for st2, o2, k2, v2 in stores if o2 == owner]
                    tok_exprs = []
                    for k2, v2 in others:
                        for e_ in ([k2] if v2 is value else [k2, v2]):
                            seen2, todo2 = set(), [e_]
                            while todo2:
                                x_ = todo2.pop()
                                tok_exprs.append(x_)
                                for nm in ast.walk(x_):
                                    if isinstance(nm, ast.Name) and isinstance(nm.ctx, ast.Load) and nm.id not in seen2 and nm.id != owner:
                                        seen2.add(nm.id)
                                        todo2 += defs.get(nm.id, [])
                    # reads of the memo compared with something derived from the parameter (`if cached[0] == f(p)`)
                    for cmp_ in ast.walk(f.node):
                        if isinstance(cmp_, ast.Compare) and "_cache" in ast.unparse(cmp_) or (isinstance(cmp_, ast.Compare) and any(
                                isinstance(n_, ast.Name) and any("_cache" in ast.unparse(d_) for d_ in defs.get(n_.id, [])) for n_ in ast.walk(cmp_))):
                            seen2, todo2 = set(), [cmp_]
                            while todo2:
                                x_ = todo2.pop()
                                tok_exprs.append(x_)
                                for nm in ast.walk(x_):
                                    if isinstance(nm, ast.Name) and isinstance(nm.ctx, ast.Load) and nm.id not in seen2 and nm.id != owner:
                                        seen2.add(nm.id)
                                        todo2 += defs.get(nm.id, [])
                    for p_ in pvals:
                        mentioned = any(isinstance(n_, ast.Name) and n_.id == p_ for e_ in tok_exprs for n_ in ast.walk(e_))
                        by_value = _value_level(tok_exprs, p_)
                        if mentioned and not by_value:
                            run.instance(rule, where, f"`{owner}._cache[{ast.unparse(key)[:30]}]` depends on the argument `{p_}`; the key / token looks at its shape only", False)
                            run.violation(rule, where, f"`{f.qualname}` memoises `{ast.unparse(value)[:40]}` on `{owner}`, computed from its argument `{p_}`, but the key / validation token "
                                          f"depends on `{p_}` only through its shape: a later call with other values of `{p_}` (the same points after a scale, another "
                                          f"normal) is answered from the memo", key=key_of(f"{prop}-{rule}", f.qualname, "param-shape-only", p_))
                        elif not mentioned:
                            run.instance(rule, where, f"`{owner}._cache[{ast.unparse(key)[:30]}]` depends on the argument `{p_}`, which no key / token mentions - NOT decided "
                                                      f"(may be validated elsewhere)", True, nontrivial=False)
            if not ok:
                run.violation(rule, where, f"`{f.qualname}` stores `{ast.unparse(value)[:50]}` under `{owner}._cache[{ast.unparse(key)[:40]}]`, but the value is computed from "
                              f"`{owner}.{uncovered[0]}` (line {hits[0][1].lineno}), which the cache of `{owner}` is not keyed on: after that state changes (recolouring, new "
                              f"metadata / attributes) the memo still serves the old value", key=key_of(f"{prop}-{rule}", f.qualname, ktxt[:40], uncovered[0]))
    run.floor("hand-written memo stores examined", n, floor)
