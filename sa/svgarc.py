"""SVG arc writer: the sweep flag of an open three-point arc must be the orientation of the ordered control triple.

SVG path grammar: `A rx,ry x-axis-rotation large-arc-flag,sweep-flag x,y`; sweep-flag 1 = the arc is drawn in the
direction of increasing angle in the file's coordinates.  An arc stored as (start, mid, end) runs in that direction
iff cross(mid - start, end - start) > 0.  Whatever quantity the writer tests, its sign must therefore be the sign of that
cross product for EVERY non-degenerate triple; a quantity that is a positive multiple of it proves the clause, a
quantity whose ratio to it takes a negative value at a witness triple is a violation (the arc would be written mirrored
about its chord: for arcs beyond a half circle the loader rebuilds another region).

Static: the writer function is interpreted by E3 on a symbolic triple with `arc_center` replaced by the symbolic
circumcentre (C14-A1 proves arc_center computes that); the tested quantity is captured at the comparison.  Witnesses are
evaluated on the extracted rational function, never on the library."""
from __future__ import annotations

import ast
import re
from string import Formatter

from .report import key_of


def _flag_fields(template):
    """names of the (large-arc, sweep) fields of an `A` command in a str.format template, or None"""
    i = template.find("A")
    if i < 0:
        return None
    names = [fld for _, fld, _, _ in Formatter().parse(template[i:]) if fld]
    # A rx ry rot large sweep x y  -> fields 0,1 radii, (rotation is usually the literal 0), then two flags
    lit = template[i:]
    if re.search(r"A\{\w+[^}]*\}[ ,]\{\w+[^}]*\}[ ,]0[ ,]\{(\w+)[^}]*\}[ ,]\{(\w+)[^}]*\}", lit):
        m = re.search(r"A\{\w+[^}]*\}[ ,]\{\w+[^}]*\}[ ,]0[ ,]\{(\w+)[^}]*\}[ ,]\{(\w+)[^}]*\}", lit)
        return m.group(1), m.group(2)
    if len(names) >= 7:
        return names[3], names[4]
    return None


def _const_strings(ix, fi):
    """string constants assigned (possibly through .replace / + chains) to names visible from fi: name -> text with
    literal pieces concatenated (enough to read the order of the format fields)"""
    out = {}
    scopes = []
    f = fi
    while f is not None:
        scopes.append(f)
        f = f.parent
    for sc in scopes:
        for st in ast.walk(sc.node):
            if isinstance(st, ast.Assign) and len(st.targets) == 1 and isinstance(st.targets[0], ast.Name):
                pieces = [c.value for c in ast.walk(st.value) if isinstance(c, ast.Constant) and isinstance(c.value, str)]
                if pieces:
                    out.setdefault(st.targets[0].id, max(pieces, key=len))
    return out


def find_arc_writers(ix):
    """(function, format call, (large-arc field, sweep field)) for every function of svg_io that formats a template holding an `A` command"""
    mod = ix.modules.get("trimesh.path.exchange.svg_io")
    cands = []
    if mod is None:
        return cands
    for f in ix.all_functions:
        if f.module is not mod:
            continue
        strings = _const_strings(ix, f)
        for c in ast.walk(f.node):
            if isinstance(c, ast.Call) and isinstance(c.func, ast.Attribute) and c.func.attr == "format" and isinstance(c.func.value, ast.Name) \
                    and c.func.value.id in strings and c.keywords and ix_owner(f, c):
                flds = _flag_fields(strings[c.func.value.id])
                if flds and all(any(k.arg == n for k in c.keywords) for n in flds):
                    cands.append((f, c, flds))
    return cands


def sweep_rule(run, ix, rule, prop):
    import numpy as np
    import sympy as sp
    from .alg import Frame, Interp, Namespace, PyHook, Unsupported, symbols_array, tolerant_block, _Return

    run.rule(rule, "SVG export: the sweep flag written for an open arc is the orientation of its ordered control points (start, mid, end): the tested quantity "
                   "is a positive multiple of cross(mid - start, end - start) for every triple")
    mod = ix.modules.get("trimesh.path.exchange.svg_io")
    if mod is None:
        run.instance(rule, "trimesh/path/exchange/svg_io.py", "module not found - NOT decided", True, nontrivial=False)
        run.assume("svg_io: module not found, sweep flag not decided")
        return
    cands = find_arc_writers(ix)
    if len(cands) != 1:
        run.instance(rule, mod.rel, f"{len(cands)} functions format an SVG `A` command with keyword flags - NOT decided", True, nontrivial=False)
        run.assume("svg_io: arc writer not in a recognised form (one `template.format(..., large=, sweep=)` call)")
        return
    fs, call, (_, sweep_name) = cands[0]
    sweep_expr = next(k.value for k in call.keywords if k.arg == sweep_name)
    # follow single-assignment locals back to the expression that holds the comparison
    seen = 0
    while isinstance(sweep_expr, ast.Name) and seen < 4:
        defs = [st for st in ast.walk(fs.node) if isinstance(st, ast.Assign) and len(st.targets) == 1 and isinstance(st.targets[0], ast.Name)
                and st.targets[0].id == sweep_expr.id]
        if len(defs) != 1:
            break
        sweep_expr = defs[0].value
        seen += 1
    cmps = [c for c in ast.walk(sweep_expr) if isinstance(c, ast.Compare) and len(c.ops) == 1 and isinstance(c.ops[0], (ast.Gt, ast.GtE, ast.Lt, ast.LtE))]
    if len(cmps) != 1:
        run.instance(rule, fs.where, f"sweep flag `{ast.unparse(sweep_expr)[:60]}` is not a single sign test - NOT decided", True, nontrivial=False)
        run.assume("svg_io: sweep flag not a single comparison")
        return
    cmp_ = cmps[0]
    # ---- symbolic evaluation
    P = symbols_array("p", (3, 2))
    a, b, c = P[0], P[1], P[2]
    # circumcentre of (a, b, c), the classical determinant form
    d = 2 * (a[0] * (b[1] - c[1]) + b[0] * (c[1] - a[1]) + c[0] * (a[1] - b[1]))
    sq = [x[0] ** 2 + x[1] ** 2 for x in (a, b, c)]
    ux = (sq[0] * (b[1] - c[1]) + sq[1] * (c[1] - a[1]) + sq[2] * (a[1] - b[1])) / d
    uy = (sq[0] * (c[0] - b[0]) + sq[1] * (a[0] - c[0]) + sq[2] * (b[0] - a[0])) / d
    centre = np.array([ux, uy], dtype=object)
    R_, S_ = sp.Symbol("R", positive=True), sp.Symbol("span", positive=True)
    info = Namespace("ArcCenter", center=centre, radius=R_, span=S_, normal=None, angles=None)
    captured = {}

    def decider(fr, test):
        if test is cmp_:
            try:
                captured["l"] = fr.ev(test.left)
                captured["r"] = fr.ev(test.comparators[0])
            except Unsupported as e:
                captured["err"] = str(e)
        return False

    it = Interp(ix)
    it.decider = decider
    it.stubs["trimesh.path.arc:arc_center"] = lambda it_, args, kw: info
    arc = Namespace("Arc", points=[0, 1, 2], closed=False, center=PyHook(lambda *a_, **k_: info))
    # parameters / closure variables by role: whatever is indexed by `<param>.points` is the vertex array
    env_outer = {}
    parent = fs.parent
    outer = None
    if parent is not None:
        for n in ast.walk(parent.node):
            if isinstance(n, ast.Name):
                env_outer.setdefault(n.id, None)
        outer = Frame(it, parent, {})
        # every array-valued name of the enclosing function that the writer indexes with the entity's points
        for sub in ast.walk(fs.node):
            if isinstance(sub, ast.Subscript) and isinstance(sub.value, ast.Name) and isinstance(sub.slice, ast.Attribute) and sub.slice.attr == "points":
                outer.env[sub.value.id] = P
    params = fs.params
    env = {params[0]: arc} if params else {}
    for p in params[1:]:
        env[p] = P
    fr = Frame(it, fs, env, closure_env=outer)
    skipped = []
    try:
        tolerant_block(fr, fs.node.body, skipped)
    except _Return:
        pass
    except Unsupported as e:
        skipped.append(str(e))
    if "l" not in captured:
        run.instance(rule, fs.where, f"E3 could not evaluate the sweep test `{ast.unparse(cmp_)[:70]}` ({captured.get('err', skipped[:3])}) - NOT decided", True, nontrivial=False)
        run.assume("svg_io: sweep test not evaluated symbolically")
        return
    try:
        q = sp.sympify(captured["l"]) - sp.sympify(captured["r"])
    except Exception:
        run.instance(rule, fs.where, "sweep test operands are not scalars - NOT decided", True, nontrivial=False)
        run.assume("svg_io: sweep test operands not scalar")
        return
    if isinstance(cmp_.ops[0], (ast.Lt, ast.LtE)):
        q = -q
    # does a true test mean flag 1?  `int(test)` / `1 if test else 0`: yes; `0 if test else 1` / `not`: flips
    flips = False
    par = {id(ch): n for n in ast.walk(sweep_expr) for ch in ast.iter_child_nodes(n)}
    node = cmp_
    while id(node) in par:
        up = par[id(node)]
        if isinstance(up, ast.UnaryOp) and isinstance(up.op, ast.Not):
            flips = not flips
        if isinstance(up, ast.IfExp) and up.test is node:
            vals = (ast.unparse(up.body), ast.unparse(up.orelse))
            if vals in (("0", "1"), ("False", "True")):
                flips = not flips
            elif vals not in (("1", "0"), ("True", "False")):
                run.instance(rule, fs.where, f"sweep flag `{ast.unparse(sweep_expr)[:60]}`: unrecognised mapping of the test to 0/1 - NOT decided", True, nontrivial=False)
                run.assume("svg_io: sweep flag mapping not recognised")
                return
        node = up
    if flips:
        q = -q
    orient = (b[0] - a[0]) * (c[1] - a[1]) - (b[1] - a[1]) * (c[0] - a[0])
    ratio = sp.cancel(sp.together(q / orient))
    where = f"{fs.module.rel}:{cmp_.lineno} {fs.qualname}"
    proven = ratio.is_number and bool(ratio > 0)
    if not proven:
        num, den = sp.fraction(ratio)
        # positive when numerator and denominator are both (positive constants times) even powers / sums of squares: try the cheap forms
        def _sos(e):
            e = sp.factor(e)
            fs_ = sp.Mul.make_args(e)
            return all((f_.is_number and f_ > 0) or (isinstance(f_, sp.Pow) and f_.exp.is_integer and f_.exp % 2 == 0) for f_ in fs_)
        proven = _sos(num) and _sos(den)
    witness = None
    if not proven:
        # evaluate the extracted rational function on non-collinear rational triples: minor and major arcs, both orientations
        tri = [((1, 0), (0, 1), (-1, 0)), ((1, 0), (0, -1), (-1, 0)),  # half circles
               ((1, 0), (-1, 0), (0, -1)), ((1, 0), (-1, 0), (0, 1)),  # three quarters, both ways
               ((3, 4), (-5, 0), (3, -4)), ((3, -4), (-5, 0), (3, 4)),  # major arcs on r = 5
               ((5, 0), (4, 3), (3, 4)), ((3, 4), (4, 3), (5, 0)),  # short arcs
               ((0, 0), (2, 1), (7, 0)), ((0, 0), (2, -1), (7, 0)), ((2, 3), (11, 5), (4, -6)), ((2, 3), (-7, 1), (4, -6))]
        for t in tri:
            sub = {P[i, j]: sp.Rational(t[i][j]) for i in range(3) for j in range(2)}
            try:
                v = ratio.subs(sub)
            except Exception:
                continue
            if v.is_number and v.is_real and v < 0:
                witness = t
                break
    ok = proven or witness is None
    run.obligation(rule, where, f"sweep quantity / cross(mid - start, end - start) = {str(ratio)[:70]}" + (" > 0 for every triple" if proven else
                   (f" is NEGATIVE at control points {witness}" if witness else " (sign not proven, no counter-witness): not decided")), ok)
    if not proven and witness is None:
        run.assume("svg_io: sign of the sweep quantity relative to the orientation neither proven nor refuted")
    if witness is not None:
        run.violation(rule, where, f"the SVG sweep flag is decided by `{ast.unparse(cmp_)[:90]}`, which is not sign-equivalent to the orientation of (start, mid, end): "
                      f"for the control points {witness} it has the opposite sign, so that arc is written as its mirror image about the chord and "
                      f"loads back as a different region", key=key_of(f"{prop}-{rule}", "sweep-flag"))


def ix_owner(f, call):
    """the call belongs to f itself, not to a function nested in f"""
    for n in f.nested.values():
        if any(x is call for x in ast.walk(n.node)):
            return False
    return True
