"""E4 - constant tables and registries, evaluated from module-level statements without
importing anything: dict literals, `X.update(Y)` chains across modules, `X[k] = v`, dict
comprehensions over known tables; names bound in several try/except/if branches are unioned
(both the real loader and its ExceptionWrapper placeholder count as "key registered").
"""
from __future__ import annotations

import ast

from .index import Module, const_eval


class Tables:
    def __init__(self, ix):
        self.ix = ix
        self.cache = {}
        self.unknown = set()

    def keys(self, module_name, name, _depth=0):
        """set of constant keys of the module-level dict `name`; `self.unknown` collects tables with non-constant keys"""
        k = (module_name, name)
        if k in self.cache:
            return self.cache[k]
        self.cache[k] = set()
        m = self.ix.modules.get(module_name)
        if m is None or _depth > 6:
            return set()
        if name not in m.constants and name in m.imports:
            tgt = m.imports[name]
            mod, _, nm = tgt.rpartition(".")
            r = self.keys(mod, nm, _depth + 1)
            self.cache[k] = r
            return r
        out = set()
        self._walk(m, m.tree.body, name, out, _depth, top=True)
        self.cache[k] = out
        return out

    def _walk(self, m, body, name, out, depth, top=False):
        for st in body:
            if isinstance(st, ast.Assign):
                for t in st.targets:
                    if isinstance(t, ast.Name) and t.id == name:
                        if top:
                            out.clear()  # an unconditional re-assignment replaces the table; branches are unioned
                        out |= self._dict_keys(m, st.value, depth)
                    if isinstance(t, ast.Subscript) and isinstance(t.value, ast.Name) and t.value.id == name:
                        try:
                            out.add(const_eval(t.slice))
                        except ValueError:
                            self.unknown.add((m.name, name))
            elif isinstance(st, ast.Expr) and isinstance(st.value, ast.Call) and isinstance(st.value.func, ast.Attribute) \
                    and isinstance(st.value.func.value, ast.Name) and st.value.func.value.id == name and st.value.func.attr == "update":
                for a in st.value.args:
                    out |= self._dict_keys(m, a, depth)
            elif isinstance(st, (ast.Try, ast.If, ast.With)):
                for blk in [getattr(st, "body", []), getattr(st, "orelse", []), getattr(st, "finalbody", [])] + \
                        [h.body for h in getattr(st, "handlers", [])]:
                    self._walk(m, blk, name, out, depth)

    def _dict_keys(self, m, e, depth):
        if isinstance(e, ast.Dict):
            out = set()
            for k in e.keys:
                try:
                    out.add(const_eval(k))
                except (ValueError, TypeError):
                    self.unknown.add((m.name, ast.unparse(e)[:30]))
            return out
        if isinstance(e, ast.Name):
            if e.id in m.constants or e.id in m.imports:
                return set(self.keys(m.name, e.id, depth + 1))
            return set()
        if isinstance(e, ast.DictComp):
            self.unknown.add((m.name, ast.unparse(e)[:40]))
            return set()
        if isinstance(e, ast.Call) and getattr(e.func, "id", "") == "dict":
            return {k.arg for k in e.keywords if k.arg}
        return set()

    def literal(self, module_name, name):
        """value of a module-level literal table (last plain assignment), evaluated with earlier tables in scope"""
        m = self.ix.modules.get(module_name)
        if m is None or name not in m.constants:
            return None
        env = {}
        for nm, sts in m.constants.items():
            pass
        st = m.constants[name][-1]
        try:
            return const_eval(st.value, self._env(m, name))
        except (ValueError, TypeError, KeyError):
            return None

    def _env(self, m, skip):
        env = {}
        for nm, sts in m.constants.items():
            if nm == skip:
                continue
            try:
                env[nm] = const_eval(sts[-1].value, env)
            except Exception:
                continue
        return env
