"""Path-sensitive simulation of `caching.Cache` surgery inside one function.

For a function that keeps cache entries across a change of hashed state (via
`clear(exclude=...)`, a `with cache:` lock, `id_set()` or direct surgery on
`Cache.cache`), enumerate its CFG paths and compute per path

  carried   hashed-state writes that happened before the last re-key event
            (id_set / lock exit / Cache.update): entries alive at that moment
            have been re-certified for state they were not computed from;
  alive     which keys may still be in the cache at function exit
            (ALL minus dropped, or an explicit set after a clear(exclude=...));
  stored    keys (re)assigned by the function itself on that path (transport);
  stale_reads  cache keys read while verification is suspended and hashed state
            they depend on has already been written.

The rule modules turn these facts into obligations with their footprint tables.
"""
from __future__ import annotations

import ast

from .cfg import CFG, reaching_defs
from .effects import FRESH, Ref, _Analyzer
from .index import const_eval
from .report import AnalysisError

ALL = "<ALL>"


class NodeFx:
    def __init__(self):
        self.data_writes = []  # (path tuple, kind, site text)
        self.memo_stores = set()  # cache keys stored ('*' unknown)
        self.memo_reads = set()  # cache keys read
        self.events = []  # ('clear', exclude_set|None|'?'), ('id_set',), ('verify',), ('update', keys), ('delete', k)
        self.explicit = set()  # keys assigned by an explicit `owner._cache[...] = value` / `owner._cache.cache[...] = value`
        self.text = ""


class CacheSim:
    def __init__(self, eng, fi, self_cls, owner, hashed, rhs_kind=None):
        """owner: variable name holding the cache owner inside `fi`; hashed(path)->label|None says which
        access paths (relative to owner) are hashed state; rhs_kind(stmt, analyzer)->str classifies a direct write"""
        self.eng = eng
        self.fi = fi
        self.owner = owner
        self.hashed = hashed
        self.rhs_kind = rhs_kind
        self.an = _Analyzer(eng, fi, self_cls)
        self.an.run()  # builds the flow-insensitive alias environment
        self.cfg = CFG(fi.node, exceptions=False)
        self._rd = reaching_defs(self.cfg)
        self.an._base_env = dict(self.an.env)
        self.an._base_types = dict(self.an.types)
        self.lock_withs = [n for n in ast.walk(fi.node) if isinstance(n, (ast.With, ast.AsyncWith)) and any(
            self._is_cache_expr(it.context_expr) for it in n.items)]
        self._in_lock = {}
        for w in self.lock_withs:
            for b in w.body:
                for sub in ast.walk(b):
                    self._in_lock[id(sub)] = True
        self.fx = {}
        for n, st in self.cfg.stmt.items():
            if st is None or self.cfg.kind[n] in ("join",):
                continue
            self.fx[n] = self._node_fx(n, st)

    # ------------------------------------------------------------------ syntax helpers
    def _is_cache_expr(self, e):
        """owner._cache"""
        return isinstance(e, ast.Attribute) and e.attr == "_cache" and self._is_owner(e.value)

    def _is_owner(self, e):
        if isinstance(e, ast.Name) and e.id == self.owner:
            return True
        # local alias of the owner (`mesh = self`)
        if isinstance(e, ast.Name) and e.id in self.an.env:
            refs = self.an.env[e.id]
            return bool(refs) and all(r.root == self.owner and not r.path for r in refs)
        return False

    def _is_cache_dict(self, e):
        """owner._cache.cache"""
        return isinstance(e, ast.Attribute) and e.attr == "cache" and self._is_cache_expr(e.value)

    def in_lock(self, node):
        st = self.cfg.stmt[node]
        return st is not None and self._in_lock.get(id(st), False)

    # ------------------------------------------------------------------ per node effects
    def _node_fx(self, n, st):
        from .cfg import own_exprs

        fx = NodeFx()
        fx.text = ast.unparse(st).split("\n")[0][:90]
        an = self.an
        saved = an.s
        from .effects import Summary

        an.env, an.types = an.env_at(self.cfg, self._rd, n)
        an.s = Summary()
        kind = self.cfg.kind[n]
        if kind == "stmt":
            an.stmt(st)
        else:
            for e in own_exprs(st):
                if isinstance(e, ast.expr):
                    an.use(an.expr(e))
            if isinstance(st, (ast.For, ast.AsyncFor)):
                refs, types = an.expr_t(st.iter)
                an.read(refs)
        s = an.s
        an.s = saved
        an.env, an.types = an._base_env, an._base_types
        for (root, path, k) in s.writes:
            if root != self.owner:
                continue
            if k == "memo" or "_cache" in path:
                i = list(path).index("_cache") if "_cache" in path else -1
                # only entries of the memo dict count (`_cache[key]`); fields of the Cache object itself
                # (id_current, _lock, the dict being replaced by clear()) are protocol state, modelled by events
                if i >= 0 and i + 1 < len(path) and path[i + 1].startswith("[") and (root, path) in s.explicit_memo:
                    # only unconditional assignments refresh an entry; the fill-on-miss of a cached getter keeps whatever is there
                    key = path[i + 1]
                    fx.memo_stores.add(key.strip("[]") if key != "[*]" else "*")
                continue
            label = self.hashed(path)
            if label is not None:
                site = s.sites.get((root, path, k), (getattr(st, "lineno", 0), fx.text))
                fx.data_writes.append((label, k, site[1]))
        for (root, path, tag) in s.reads:
            if root == self.owner and "_cache" in path:
                i = list(path).index("_cache")
                if i + 1 < len(path) and path[i + 1].startswith("["):
                    key = path[i + 1]
                    fx.memo_reads.add(key.strip("[]") if key != "[*]" else "*")
        # accesses through the Cache API (`k in owner._cache`, `owner._cache[k]`) verify first; raw dict
        # accesses (`owner._cache.cache[...]`) do not
        nodes = list(ast.walk(st)) if kind == "stmt" else [x for e in own_exprs(st) if isinstance(e, ast.AST) for x in ast.walk(e)]
        for c in nodes:
            if isinstance(c, ast.Compare):
                for o, comp in zip(c.ops, c.comparators):
                    if isinstance(o, (ast.In, ast.NotIn)) and self._is_cache_expr(comp):
                        try:
                            fx.memo_reads.add(str(const_eval(c.left)))
                        except (ValueError, TypeError):
                            fx.memo_reads.add("*")
            if isinstance(c, ast.Subscript) and isinstance(c.ctx, ast.Load) and self._is_cache_expr(c.value):
                try:
                    fx.memo_reads.add(str(const_eval(c.slice)))
                except (ValueError, TypeError):
                    fx.memo_reads.add("*")
        # explicit protocol calls
        for c in ast.walk(st) if kind == "stmt" else [x for e in own_exprs(st) if isinstance(e, ast.AST) for x in ast.walk(e)]:
            if not isinstance(c, ast.Call) or not isinstance(c.func, ast.Attribute):
                continue
            f = c.func
            if self._is_cache_expr(f.value):
                if f.attr == "clear":
                    ex = None
                    if c.args:
                        ex = c.args[0]
                    for k in c.keywords:
                        if k.arg == "exclude":
                            ex = k.value
                    fx.events.append(("clear", ex))
                elif f.attr == "id_set":
                    fx.events.append(("id_set",))
                elif f.attr == "verify":
                    fx.events.append(("verify",))
                elif f.attr == "update":
                    fx.events.append(("update", c.args[0] if c.args else None))
                elif f.attr == "delete":
                    fx.events.append(("delete", c.args[0] if c.args else None))
            elif self._is_cache_dict(f.value):
                if f.attr == "update":
                    fx.events.append(("dict_update", c.args[0] if c.args else None))
                elif f.attr in ("pop",):
                    fx.events.append(("delete", c.args[0] if c.args else None))
                elif f.attr == "clear":
                    fx.events.append(("clear", None))
        for c in nodes:
            if isinstance(c, ast.Assign):
                for t in c.targets:
                    if isinstance(t, ast.Subscript) and (self._is_cache_expr(t.value) or self._is_cache_dict(t.value)):
                        try:
                            fx.explicit.add(str(const_eval(t.slice)))
                        except (ValueError, TypeError):
                            fx.explicit.add("*")
        # a bare protocol call (`owner._cache.clear(...)`, `.id_set()`, `.cache.update(...)`) is modelled by its event;
        # what the Cache method touches internally is not an access to memo entries
        if fx.events and isinstance(st, ast.Expr) and isinstance(st.value, ast.Call) and isinstance(st.value.func, ast.Attribute) \
                and (self._is_cache_expr(st.value.func.value) or self._is_cache_dict(st.value.func.value)):
            fx.memo_reads = set()
            fx.memo_stores = set()
        # direct write classification
        if fx.data_writes and self.rhs_kind is not None and kind == "stmt":
            rk = self.rhs_kind(st, self)
            if rk:
                fx.data_writes = [(lab, rk.get(lab, k), site) for lab, k, site in fx.data_writes]
        return fx

    # ------------------------------------------------------------------ constant propagation for exclude sets / dicts
    def _const_set(self, expr, path_nodes, upto):
        """evaluate a set/list/tuple of string keys, following a local name backwards along the path"""
        if expr is None:
            return None
        try:
            v = const_eval(expr)
            return set(v)
        except (ValueError, TypeError):
            pass
        if isinstance(expr, ast.Call) and isinstance(expr.func, ast.Name) and expr.func.id in ("set", "frozenset", "tuple", "list") \
                and not expr.keywords and len(expr.args) <= 1:
            # set() / frozenset({...}) / frozenset(NAME): same keys as the argument
            if not expr.args:
                return set()
            return self._const_set(expr.args[0], path_nodes, upto)
        if isinstance(expr, ast.Call) and isinstance(expr.func, ast.Attribute) and expr.func.attr == "union" and not expr.keywords:
            acc = self._const_set(expr.func.value, path_nodes, upto)
            for a in expr.args:
                more = self._const_set(a, path_nodes, upto)
                if acc in (None, "?") or more in (None, "?"):
                    return "?"
                acc = acc | more
            return acc if acc is not None else "?"
        if isinstance(expr, ast.Name) and not self._assigned_locally(expr.id):
            # a module-level constant (possibly imported): assigned exactly once, never mutated in place
            return self._module_const_set(expr.id)
        if isinstance(expr, ast.Name):
            acc = None
            for n in path_nodes[:upto]:
                st = self.cfg.stmt[n]
                if st is None or self.cfg.kind[n] != "stmt":
                    continue
                if isinstance(st, ast.Assign) and any(isinstance(t, ast.Name) and t.id == expr.id for t in st.targets):
                    acc = self._const_set(st.value, path_nodes, path_nodes.index(n))
                    if acc is None:
                        return "?"
                elif isinstance(st, ast.AugAssign) and isinstance(st.target, ast.Name) and st.target.id == expr.id and acc not in (None, "?"):
                    more = self._const_set(st.value, path_nodes, path_nodes.index(n))
                    if more in (None, "?"):
                        return "?"
                    acc = acc | more
                elif isinstance(st, ast.Expr) and isinstance(st.value, ast.Call) and isinstance(st.value.func, ast.Attribute) \
                        and isinstance(st.value.func.value, ast.Name) and st.value.func.value.id == expr.id and acc not in (None, "?"):
                    m = st.value.func.attr
                    try:
                        if m in ("add", "append"):
                            acc = acc | {const_eval(st.value.args[0])}
                        elif m in ("update", "extend"):
                            acc = acc | set(const_eval(st.value.args[0]))
                    except (ValueError, TypeError):
                        # a named set (module constant, another local)
                        more = self._const_set(st.value.args[0], path_nodes, path_nodes.index(n)) if m in ("update", "extend") and st.value.args else "?"
                        if more in (None, "?"):
                            return "?"
                        acc = acc | more
            return acc if acc is not None else "?"
        if isinstance(expr, ast.BinOp) and isinstance(expr.op, (ast.BitOr, ast.Add)):
            a = self._const_set(expr.left, path_nodes, upto)
            b = self._const_set(expr.right, path_nodes, upto)
            if a in (None, "?") or b in (None, "?"):
                return "?"
            return a | b
        return "?"

    def _assigned_locally(self, name):
        a = self.fi.node.args
        if name in [x.arg for x in a.posonlyargs + a.args + a.kwonlyargs] or (a.vararg and a.vararg.arg == name) or (a.kwarg and a.kwarg.arg == name):
            return True
        for n in ast.walk(self.fi.node):
            if isinstance(n, ast.Name) and n.id == name and isinstance(n.ctx, (ast.Store, ast.Del)):
                return True
        return False

    def _module_const_set(self, name, _depth=0):
        m = self.fi.module
        for _ in range(4):
            vals = m.constants.get(name)
            if vals:
                break
            tgt = m.imports.get(name)
            if not tgt or "." not in tgt:
                return "?"
            mod, name = tgt.rsplit(".", 1)
            m = self.eng.ix.modules.get(mod)
            if m is None:
                return "?"
        else:
            return "?"
        if len(vals) != 1:
            return "?"
        # mutated in place anywhere in its module (NAME.add(...), NAME |= ...): not a constant
        for n in ast.walk(m.tree):
            if isinstance(n, ast.AugAssign) and isinstance(n.target, ast.Name) and n.target.id == name:
                return "?"
            if isinstance(n, ast.Call) and isinstance(n.func, ast.Attribute) and isinstance(n.func.value, ast.Name) and n.func.value.id == name \
                    and n.func.attr in ("add", "update", "discard", "remove", "pop", "clear", "append", "extend", "insert"):
                return "?"
        v = vals[0]
        v = v.value if isinstance(v, (ast.Assign, ast.AnnAssign)) else v
        try:
            return set(const_eval(v))
        except (ValueError, TypeError):
            pass
        if isinstance(v, ast.Call) and isinstance(v.func, ast.Name) and v.func.id in ("set", "frozenset", "tuple", "list") and len(v.args) <= 1 and not v.keywords:
            if not v.args:
                return set()
            try:
                return set(const_eval(v.args[0]))
            except (ValueError, TypeError):
                if isinstance(v.args[0], ast.Name) and _depth < 3:
                    return self._module_const_set(v.args[0].id, _depth + 1)
        return "?"

    def _dict_keys(self, expr, path_nodes, upto):
        """keys of a local dict that is later merged into the cache; returns {key: 'preserved'|'computed'}"""
        if isinstance(expr, ast.Dict):
            out = {}
            for k, v in zip(expr.keys, expr.values):
                try:
                    out[const_eval(k)] = "computed"
                except (ValueError, TypeError):
                    return "?"
            return out
        if not isinstance(expr, ast.Name):
            return "?"
        out = {}
        name = expr.id
        on_path = {id(self.cfg.stmt[n]) for n in path_nodes[:upto] if self.cfg.stmt[n] is not None}
        for st in ast.walk(self.fi.node):
            if isinstance(st, ast.Assign) and isinstance(st.targets[0], ast.Subscript) and isinstance(st.targets[0].value, ast.Name) \
                    and st.targets[0].value.id == name and id(st) in on_path:
                keys = self._subscript_keys(st.targets[0].slice, st)
                if keys == "?":
                    return "?"
                for k in keys:
                    src = st.value
                    preserved = (isinstance(src, ast.Subscript) and self._is_cache_dict(src.value)) or \
                                (isinstance(src, ast.Subscript) and self._is_cache_expr(src.value))
                    out[k] = "preserved" if preserved else "computed"
        return out

    def _subscript_keys(self, sl, st):
        try:
            return [const_eval(sl)]
        except (ValueError, TypeError):
            pass
        if isinstance(sl, ast.Name):
            # loop variable over a literal list: for key in [...]:
            for loop in ast.walk(self.fi.node):
                if isinstance(loop, ast.For) and isinstance(loop.target, ast.Name) and loop.target.id == sl.id and any(
                        st is x for b in loop.body for x in ast.walk(b)):
                    try:
                        return list(const_eval(loop.iter))
                    except (ValueError, TypeError):
                        return "?"
        return "?"

    # ------------------------------------------------------------------ simulation
    def simulate(self, limit=4096):
        paths = self.cfg.paths(limit=limit)
        if paths is None:
            raise AnalysisError(f"{self.fi.qualname}: more than {limit} CFG paths")
        results = []
        seen = set()
        for p in paths:
            r = self._sim_path(p)
            sig = (frozenset(r["carried"]), r["alive_all"], frozenset(r["alive"]), frozenset(r["dropped"]),
                   frozenset(r["stored"]), frozenset(r["preserved"]), frozenset(r["stale_reads"]), r["unknown_exclude"], r["unverified"], frozenset(r["explicit"]))
            if sig in seen:
                continue
            seen.add(sig)
            results.append(r)
        return results, len(paths)

    def _sim_path(self, p):
        alive_all = True
        dropped = set()  # keys explicitly dropped while alive_all
        alive = set()  # explicit alive set when not alive_all
        stored = set()
        explicit = set()  # keys the function itself assigns a computed value to (transport)
        preserved = set()  # keys explicitly carried over by the function (stash/restore or exclude)
        pending = []  # (label, kind, site)
        carried = []
        stale_reads = set()
        unknown_exclude = False
        lock_depth_prev = False
        trace = []
        writes_in_lock = []
        verified = False  # has the cache been verified on this path before the first write / lock entry?
        unverified = None  # description of the first write or lock entry that happened on an unverified cache
        stale_restrict = None  # None: any key may predate the writes made under the lock; else only these
        stale_exempt = set()  # keys (re)stored after the last such write, or read (hence recomputed if absent)

        def rekey(why):
            nonlocal pending
            if pending:
                carried.extend(pending)
                trace.append(f"re-key ({why}) after writes {[w[0] for w in pending]}")
            pending = []

        def dump(why):
            nonlocal alive_all, alive, dropped, pending, stored
            alive_all = False
            alive = set()
            stored = set()
            pending = []
            trace.append(f"dump ({why})")

        for idx, n in enumerate(p):
            st = self.cfg.stmt[n]
            if st is None or n not in self.fx:
                continue
            inl = self.in_lock(n)
            if lock_depth_prev and not inl:
                rekey("lock exit")
                writes_in_lock = []
            if inl and not lock_depth_prev and not verified and unverified is None:
                unverified = f"lock entered at `{self.fx[n].text}`"
            lock_depth_prev = inl
            fx = self.fx[n]
            if not inl and not pending and (fx.memo_reads or any(e[0] == "verify" for e in fx.events)):
                verified = True
            # reads of memo entries
            if fx.memo_reads:
                if inl or not pending:
                    # verification suspended (lock) or nothing pending: entries are served as they are
                    if inl and writes_in_lock:
                        for k in fx.memo_reads:
                            may = (stale_restrict is None or k in stale_restrict) and k not in stale_exempt
                            if may:
                                stale_reads.add((k, tuple(sorted({w[0] for w in writes_in_lock})), fx.text))
                else:
                    dump(f"verify on access at `{fx.text}`")
            for ev in fx.events:
                if ev[0] == "verify" and pending and not inl:
                    dump("explicit verify")
                elif ev[0] == "clear":
                    ex = self._const_set(ev[1], p, idx) if ev[1] is not None else None
                    if ex == "?":
                        unknown_exclude = True
                        ex = None
                    if ex is None:
                        alive_all, alive, stored = False, set(), set()
                        stale_restrict = set()
                        trace.append("clear()")
                    else:
                        ex = {str(k) for k in ex}
                        stale_restrict = set(ex) if stale_restrict is None else (stale_restrict & set(ex))
                        if alive_all:
                            alive_all = False
                            alive = set(ex) - dropped
                            alive.discard("*")
                            alive_from_all = True
                        else:
                            alive = alive & ex
                        stored = stored & ex
                        preserved |= (ex - stored)
                        trace.append(f"clear(exclude={sorted(ex)})")
                elif ev[0] == "id_set":
                    rekey("id_set")
                elif ev[0] == "update":
                    keys = self._dict_keys(ev[1], p, idx) if ev[1] is not None else "?"
                    if keys == "?":
                        stored.add("*")
                    else:
                        for k, how in keys.items():
                            (preserved if how == "preserved" else stored).add(k)
                            if not alive_all:
                                alive.add(k)
                    rekey("Cache.update")
                elif ev[0] == "dict_update":
                    keys = self._dict_keys(ev[1], p, idx) if ev[1] is not None else "?"
                    if keys == "?":
                        stored.add("*")
                        if not alive_all:
                            alive.add("*")
                    else:
                        for k, how in keys.items():
                            (preserved if how == "preserved" else stored).add(k)
                            if how != "preserved":
                                explicit.add(k)
                            if not alive_all:
                                alive.add(k)
                elif ev[0] == "delete":
                    try:
                        k = const_eval(ev[1])
                        if alive_all:
                            dropped.add(k)
                        alive.discard(k)
                        stored.discard(k)
                    except (ValueError, TypeError):
                        pass
            explicit |= fx.explicit
            for k in fx.memo_stores:
                # a memo store outside a lock goes through Cache.__setitem__ -> verify first
                if pending and not inl and not any(e[0] in ("dict_update",) for e in fx.events) and not self._direct_dict_store(st):
                    dump(f"verify in Cache.__setitem__ at `{fx.text}`")
                stored.add(k)
                if not alive_all:
                    alive.add(k)
            stale_exempt |= set(fx.memo_stores) | set(fx.memo_reads)
            if fx.data_writes and not verified and unverified is None and not inl:
                unverified = f"write at `{fx.text}`"
            if fx.data_writes and fx.memo_reads and inl and self._is_call_stmt(st):
                # a callee that writes hashed data and reads memo entries under the caller's lock: inside it the reads may
                # come after the write (its own statement order is not visible here), so an entry that may predate the
                # write can be served stale within the call
                for k in fx.memo_reads:
                    may = (stale_restrict is None or k in stale_restrict) and k not in fx.memo_stores
                    if may:
                        stale_reads.add((k, tuple(sorted({w[0] for w in fx.data_writes})), fx.text))
            if fx.data_writes:
                pending.extend(fx.data_writes)
                if inl:
                    writes_in_lock.extend(fx.data_writes)
                    stale_restrict = None
                    stale_exempt = set(fx.memo_stores)  # stores made by the writing statement itself are its transports
                trace.append(f"write {[w[0] + ':' + w[1] for w in fx.data_writes]} at `{fx.text}`")
        if lock_depth_prev:
            rekey("lock exit")
        return {
            "path": p, "carried": carried, "pending_at_exit": pending, "alive_all": alive_all, "alive": alive, "dropped": dropped,
            "stored": stored, "preserved": preserved, "stale_reads": stale_reads, "unknown_exclude": unknown_exclude, "trace": trace,
            "unverified": unverified, "explicit": explicit,
        }

    @staticmethod
    def _is_call_stmt(st):
        return isinstance(st, ast.Expr) and isinstance(st.value, ast.Call) or (isinstance(st, ast.Assign) and isinstance(st.value, ast.Call))

    def _direct_dict_store(self, st):
        """`owner._cache.cache[k] = v` bypasses Cache.__setitem__ (no verify)"""
        for n in ast.walk(st):
            if isinstance(n, ast.Assign):
                for t in n.targets:
                    if isinstance(t, ast.Subscript) and self._is_cache_dict(t.value):
                        return True
        return False

    def has_surgery(self):
        """does the function keep entries across writes at all (lock, exclude, id_set, dict surgery)?"""
        if self.lock_withs:
            return True
        for fx in self.fx.values():
            for ev in fx.events:
                if ev[0] in ("id_set", "update", "dict_update") or (ev[0] == "clear" and ev[1] is not None):
                    return True
        return False
