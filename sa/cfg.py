"""E2 - statement-level control-flow graph for one function, with exceptional
edges, duplicated `finally` bodies per entry kind, dominators / post-dominators
and bounded path enumeration.  Built on networkx; nothing is executed.

Node ids are small integers; `cfg.stmt[n]` is the ast statement (or test
expression owner) the node stands for; `cfg.kind[n]` in
{'entry','exit','raise','stmt','test','with','for','handler','join'}.
"""
from __future__ import annotations

import ast

import networkx as nx


class CFG:
    def __init__(self, func, exceptions=True):
        """func: ast.FunctionDef.  exceptions=True adds an edge from every
        statement that can raise to the innermost handler / finally / RAISE."""
        self.func = func
        self.g = nx.DiGraph()
        self.stmt = {}
        self.kind = {}
        self.tag = {}
        self._n = 0
        self.exceptions = exceptions
        self.entry = self._new(None, "entry")
        self.exit = self._new(None, "exit")
        self.raise_exit = self._new(None, "raise")
        self.nodes_of = {}  # id(ast stmt) -> [node ids]
        ctx = _Ctx(exc_target=[self.raise_exit], ret=self._ret_plain)
        out = self._body(func.body, {self.entry}, ctx, ())
        for p in out:
            self.g.add_edge(p, self.exit)
        self._idom = None
        self._ipdom = None

    # ------------------------------------------------------------------
    def _new(self, stmt, kind, tag=()):
        self._n += 1
        n = self._n
        self.g.add_node(n)
        self.stmt[n] = stmt
        self.kind[n] = kind
        self.tag[n] = tag
        if stmt is not None:
            self.nodes_of.setdefault(id(stmt), []).append(n)
        return n

    def _ret_plain(self, preds):
        for p in preds:
            self.g.add_edge(p, self.exit)

    def _link(self, preds, n):
        for p in preds:
            self.g.add_edge(p, n)

    def _may_raise(self, n, ctx):
        if self.exceptions:
            for t in ctx.exc_target:
                self.g.add_edge(n, t)

    def _body(self, body, preds, ctx, tag):
        for st in body:
            if not preds:
                break  # unreachable code
            preds = self._stmt(st, preds, ctx, tag)
        return preds

    def _stmt(self, st, preds, ctx, tag):
        if isinstance(st, (ast.FunctionDef, ast.AsyncFunctionDef, ast.ClassDef)):
            n = self._new(st, "stmt", tag)
            self._link(preds, n)
            return {n}
        if isinstance(st, ast.If):
            t = self._new(st, "test", tag)
            self._link(preds, t)
            self._may_raise(t, ctx)
            a = self._body(st.body, {t}, ctx, tag)
            b = self._body(st.orelse, {t}, ctx, tag) if st.orelse else {t}
            return a | b
        if isinstance(st, (ast.While,)):
            t = self._new(st, "test", tag)
            self._link(preds, t)
            self._may_raise(t, ctx)
            brk = set()
            c2 = ctx.child(brk=brk, cont=t)
            body_out = self._body(st.body, {t}, c2, tag)
            self._link(body_out, t)
            infinite = isinstance(st.test, ast.Constant) and bool(st.test.value)
            out = set() if infinite else {t}
            if st.orelse:
                out = self._body(st.orelse, out, ctx, tag)
            return out | brk
        if isinstance(st, (ast.For, ast.AsyncFor)):
            t = self._new(st, "for", tag)
            self._link(preds, t)
            self._may_raise(t, ctx)
            brk = set()
            c2 = ctx.child(brk=brk, cont=t)
            body_out = self._body(st.body, {t}, c2, tag)
            self._link(body_out, t)
            out = {t}
            if st.orelse:
                out = self._body(st.orelse, out, ctx, tag)
            return out | brk
        if isinstance(st, (ast.With, ast.AsyncWith)):
            n = self._new(st, "with", tag)
            self._link(preds, n)
            self._may_raise(n, ctx)
            return self._body(st.body, {n}, ctx, tag)
        if isinstance(st, ast.Try) or st.__class__.__name__ == "TryStar":
            return self._try(st, preds, ctx, tag)
        if isinstance(st, ast.Return):
            n = self._new(st, "stmt", tag)
            self._link(preds, n)
            if st.value is not None:
                self._may_raise(n, ctx)
            ctx.ret({n})
            return set()
        if isinstance(st, ast.Raise):
            n = self._new(st, "stmt", tag)
            self._link(preds, n)
            for t in ctx.exc_target:
                self.g.add_edge(n, t)
            return set()
        if isinstance(st, ast.Break):
            n = self._new(st, "stmt", tag)
            self._link(preds, n)
            ctx.do_break({n})
            return set()
        if isinstance(st, ast.Continue):
            n = self._new(st, "stmt", tag)
            self._link(preds, n)
            ctx.do_continue({n}, self)
            return set()
        if isinstance(st, ast.Match):
            t = self._new(st, "test", tag)
            self._link(preds, t)
            out = {t}
            for case in st.cases:
                out |= self._body(case.body, {t}, ctx, tag)
            return out
        # simple statement
        n = self._new(st, "stmt", tag)
        self._link(preds, n)
        if not isinstance(st, (ast.Pass, ast.Global, ast.Nonlocal, ast.Import, ast.ImportFrom)) and not _inert(st):
            self._may_raise(n, ctx)
        return {n}

    def _try(self, st, preds, ctx, tag):
        has_final = bool(st.finalbody)
        # --- finally bodies are duplicated per entry kind
        def fin(kind, fpreds, after):
            """build a copy of finalbody entered from fpreds; `after(out)` wires its exits"""
            if not fpreds:
                return
            if not has_final:
                after(fpreds)
                return
            out = self._body(st.finalbody, fpreds, ctx, tag + ((id(st), kind),))
            after(out)

        normal_out = set()
        exc_in = set()  # nodes that leave by unhandled exception
        ret_in = set()
        brk_in = set()
        cont_in = set()

        # join node where exceptions raised in the try body arrive
        hjoin = self._new(st, "join", tag + (("hjoin",),))
        inner_exc = [hjoin]
        if has_final:
            c_body = ctx.child(
                exc_target=inner_exc,
                ret=lambda p: ret_in.update(p),
                brk_fn=(lambda p: brk_in.update(p)) if ctx.in_loop else None,
                cont_fn=(lambda p: cont_in.update(p)) if ctx.in_loop else None,
            )
        else:
            c_body = ctx.child(exc_target=inner_exc)
        body_out = self._body(st.body, preds, c_body, tag)
        if st.orelse:
            # exceptions in else are not caught by this try's handlers
            c_else = c_body.child(exc_target=[self._fjoin(st, tag, exc_in)] if has_final else ctx.exc_target)
            body_out = self._body(st.orelse, body_out, c_else, tag)
        normal_out |= body_out

        # handlers
        catches_all = False
        fj = self._fjoin(st, tag, exc_in) if has_final else None
        for h in st.handlers:
            hn = self._new(h, "handler", tag)
            self.g.add_edge(hjoin, hn)
            if h.type is None or (
                isinstance(h.type, ast.Name) and h.type.id in ("BaseException",)
            ):
                catches_all = True
            c_h = c_body.child(exc_target=[fj] if has_final else ctx.exc_target)
            normal_out |= self._body(h.body, {hn}, c_h, tag)
        if not catches_all:
            # exception not matched by any handler propagates
            if has_final:
                self.g.add_edge(hjoin, fj)
            else:
                for t in ctx.exc_target:
                    self.g.add_edge(hjoin, t)
        if not has_final:
            return normal_out

        result = set()
        fin("normal", normal_out, lambda out: result.update(out))

        def after_exc(out):
            for o in out:
                for t in ctx.exc_target:
                    self.g.add_edge(o, t)

        fin("exc", {fj} if self.g.in_degree(fj) else set(), after_exc)
        fin("return", ret_in, lambda out: ctx.ret(out))
        if brk_in:
            fin("break", brk_in, lambda out: ctx.do_break(out))
        if cont_in:
            fin("continue", cont_in, lambda out: ctx.do_continue(out, self))
        return result

    def _fjoin(self, st, tag, exc_in):
        key = (id(st), tag, "fjoin")
        if not hasattr(self, "_fj"):
            self._fj = {}
        if key not in self._fj:
            self._fj[key] = self._new(st, "join", tag + (("fjoin",),))
        return self._fj[key]

    # ------------------------------------------------------------------
    def nodes_for(self, stmt):
        return list(self.nodes_of.get(id(stmt), []))

    def idom(self):
        if self._idom is None:
            self._idom = nx.immediate_dominators(self.g, self.entry)
        return self._idom

    def dominates(self, a, b):
        """every path entry->b passes a"""
        idom = self.idom()
        if b not in idom:
            return True  # unreachable
        while True:
            if a == b:
                return True
            nb = idom.get(b)
            if nb is None or nb == b:
                return False
            b = nb

    def _sink_graph(self, include_raise):
        g = self.g.reverse(copy=True)
        sink = "SINK"
        g.add_edge(sink, self.exit)
        if include_raise:
            g.add_edge(sink, self.raise_exit)
        return g, sink

    def postdominates(self, a, b, include_raise=False):
        """every path from b to function exit (and to raise-exit if asked) passes a"""
        key = include_raise
        if self._ipdom is None:
            self._ipdom = {}
        if key not in self._ipdom:
            g, sink = self._sink_graph(include_raise)
            self._ipdom[key] = nx.immediate_dominators(g, sink)
        ip = self._ipdom[key]
        if b not in ip:
            return True  # b cannot reach the exits considered
        while True:
            if a == b:
                return True
            nb = ip.get(b)
            if nb is None or nb == b or nb == "SINK":
                return False
            b = nb

    def reachable_without(self, src, dst, blockers):
        """is there a path src -> dst that avoids every node in `blockers`
        (src itself excluded from the blocker test)?"""
        blockers = set(blockers)
        seen = {src}
        todo = [src]
        while todo:
            n = todo.pop()
            for s in self.g.successors(n):
                if s == dst:
                    return True
                if s in seen or s in blockers:
                    continue
                seen.add(s)
                todo.append(s)
        return False

    def paths(self, limit=4096, include_raise=False):
        """enumerate entry->exit paths where every node occurs at most once,
        except loop headers which may occur twice (loop bodies are taken zero
        times or once).  Returns a list of node-id lists, or None when there are
        more than `limit` paths."""
        targets = {self.exit} | ({self.raise_exit} if include_raise else set())
        out = []
        headers = {n for n, k in self.kind.items()
                   if k == "for" or (k == "test" and isinstance(self.stmt[n], ast.While))}
        stack = [(self.entry, (self.entry,), {self.entry: 1})]
        while stack:
            n, path, cnt = stack.pop()
            if n in targets:
                out.append(list(path))
                if len(out) > limit:
                    return None
                continue
            for s in self.g.successors(n):
                if s == self.raise_exit and not include_raise:
                    continue
                c = cnt.get(s, 0)
                if c >= (2 if s in headers else 1):
                    continue
                c2 = dict(cnt)
                c2[s] = c + 1
                stack.append((s, path + (s,), c2))
        return out


def _inert_expr(e):
    if isinstance(e, (ast.Constant, ast.Name)):
        return True
    if isinstance(e, (ast.List, ast.Tuple, ast.Set)):
        return all(_inert_expr(x) for x in e.elts)
    if isinstance(e, ast.Dict):
        return all(k is not None and _inert_expr(k) and _inert_expr(v) for k, v in zip(e.keys, e.values))
    return False


def _inert(st):
    """`x = []`, `flag = True`, `a = b`: binding a local to a constant / name / literal of those cannot raise"""
    if isinstance(st, ast.Assign):
        return all(isinstance(t, ast.Name) for t in st.targets) and _inert_expr(st.value)
    if isinstance(st, ast.AnnAssign):
        return isinstance(st.target, ast.Name) and (st.value is None or _inert_expr(st.value))
    return False


class _Ctx:
    def __init__(self, exc_target, ret, brk=None, cont=None, brk_fn=None, cont_fn=None, in_loop=False):
        self.exc_target = exc_target
        self.ret = ret
        self.brk = brk
        self.cont = cont
        self.brk_fn = brk_fn
        self.cont_fn = cont_fn
        self.in_loop = in_loop

    def child(self, **kw):
        c = _Ctx(self.exc_target, self.ret, self.brk, self.cont, self.brk_fn, self.cont_fn, self.in_loop)
        if "brk" in kw:
            # entering a new loop: plain break/continue handling again
            c.brk = kw["brk"]
            c.cont = kw["cont"]
            c.brk_fn = None
            c.cont_fn = None
            c.in_loop = True
        if "exc_target" in kw:
            c.exc_target = kw["exc_target"]
        if "ret" in kw:
            c.ret = kw["ret"]
        if kw.get("brk_fn") is not None:
            c.brk_fn = kw["brk_fn"]
        if kw.get("cont_fn") is not None:
            c.cont_fn = kw["cont_fn"]
        return c

    def do_break(self, preds):
        if self.brk_fn is not None:
            self.brk_fn(preds)
        elif self.brk is not None:
            self.brk.update(preds)

    def do_continue(self, preds, cfg):
        if self.cont_fn is not None:
            self.cont_fn(preds)
        elif self.cont is not None:
            for p in preds:
                cfg.g.add_edge(p, self.cont)


def calls_in(node):
    """all ast.Call nodes inside a statement, not descending into nested defs"""
    out = []
    todo = [node]
    while todo:
        n = todo.pop()
        for c in ast.iter_child_nodes(n):
            if isinstance(c, (ast.FunctionDef, ast.AsyncFunctionDef, ast.ClassDef, ast.Lambda)):
                continue
            if isinstance(c, ast.Call):
                out.append(c)
            todo.append(c)
    return out


def own_exprs(st):
    """the expressions evaluated by the CFG node of `st` itself (header only for
    compound statements)"""
    if isinstance(st, (ast.If, ast.While)):
        return [st.test]
    if isinstance(st, (ast.For, ast.AsyncFor)):
        return [st.iter, st.target]
    if isinstance(st, (ast.With, ast.AsyncWith)):
        out = []
        for it in st.items:
            out.append(it.context_expr)
            if it.optional_vars is not None:
                out.append(it.optional_vars)
        return out
    if isinstance(st, ast.ExceptHandler):
        return [st.type] if st.type is not None else []
    if isinstance(st, (ast.Try,)):
        return []
    if isinstance(st, (ast.FunctionDef, ast.AsyncFunctionDef, ast.ClassDef)):
        return []
    return [st]


def _targets(t, out):
    if isinstance(t, ast.Name):
        out.append(t.id)
    elif isinstance(t, (ast.Tuple, ast.List)):
        for e in t.elts:
            _targets(e.value if isinstance(e, ast.Starred) else e, out)


def node_defs(cfg, n, ssa=False):
    """local names (re)bound by CFG node n -> 'strong' (plain rebinding) or 'weak' (augmented / loop / partial).
    ssa=True: `x op= e` and element stores `x[i] = e` / `x[i] op= e` count as full redefinitions of x (its new value is
    a function of the old one), so that a straight-line sequence of updates has one reaching definition at each use"""
    st = cfg.stmt[n]
    kind = cfg.kind[n]
    out = {}
    if st is None:
        return out
    if kind == "stmt":
        if isinstance(st, ast.Assign):
            for t in st.targets:
                names = []
                _targets(t, names)
                for x in names:
                    out[x] = "strong"
        elif isinstance(st, ast.AnnAssign) and st.value is not None:
            names = []
            _targets(st.target, names)
            for x in names:
                out[x] = "strong"
        elif isinstance(st, ast.AugAssign) and isinstance(st.target, ast.Name):
            out[st.target.id] = "strong" if ssa else "weak"
        elif isinstance(st, (ast.Import, ast.ImportFrom)):
            for a in st.names:
                out[(a.asname or a.name).split(".")[0]] = "strong"
        elif isinstance(st, (ast.FunctionDef, ast.ClassDef)):
            out[st.name] = "strong"
        if ssa:
            tg = st.targets if isinstance(st, ast.Assign) else ([st.target] if isinstance(st, (ast.AugAssign, ast.AnnAssign)) else [])
            for t in tg:
                if isinstance(t, ast.Subscript) and isinstance(t.value, ast.Name) and t.value.id not in out:
                    out[t.value.id] = "strong"
        for sub in ast.walk(st):
            if isinstance(sub, ast.NamedExpr) and isinstance(sub.target, ast.Name):
                out[sub.target.id] = "weak"
    elif kind == "for":
        names = []
        _targets(st.target, names)
        for x in names:
            out[x] = "strong"
    elif kind == "with":
        for it in st.items:
            if it.optional_vars is not None:
                names = []
                _targets(it.optional_vars, names)
                for x in names:
                    out[x] = "strong"
    elif kind == "handler" and getattr(st, "name", None):
        out[st.name] = "strong"
    return out


def reaching_defs(cfg, ssa=False):
    """classic forward may-analysis: for every node the set of (name, defining node) pairs that may reach its entry;
    the pseudo node cfg.entry defines every parameter"""
    gen = {}
    kill_names = {}
    for n in cfg.g.nodes:
        d = node_defs(cfg, n, ssa) if n not in (cfg.entry, cfg.exit, cfg.raise_exit) else {}
        gen[n] = {(x, n) for x in d}
        kill_names[n] = {x for x, k in d.items() if k == "strong"}
    a = cfg.func.args
    params = [x.arg for x in a.posonlyargs + a.args + a.kwonlyargs] + ([a.vararg.arg] if a.vararg else []) + ([a.kwarg.arg] if a.kwarg else [])
    gen[cfg.entry] = {(p, cfg.entry) for p in params}
    IN = {n: set() for n in cfg.g.nodes}
    OUT = {n: set(gen[n]) for n in cfg.g.nodes}
    work = list(cfg.g.nodes)
    while work:
        n = work.pop()
        new_in = set()
        for p in cfg.g.predecessors(n):
            new_in |= OUT[p]
        IN[n] = new_in
        new_out = {(x, d) for (x, d) in new_in if x not in kill_names[n]} | gen[n]
        if new_out != OUT[n]:
            OUT[n] = new_out
            work.extend(cfg.g.successors(n))
    return IN
