"""E7 - container evaluation: what lists, dicts, tuples and strings a function builds, for one decided configuration.

Writers assemble their output from pieces: a header is a list of template strings joined at the end, a record layout a
list of (name, type, shape) tuples handed to numpy, a table a dict filled key by key.  Whether two such pieces agree (the
header declares the fields in the order the record stores them) is a fact about the *values of these containers*, and the
code that builds them can be written in many ways - appends under ifs, a dict of columns unpacked in a comprehension, a
helper that extends the list it is given.  This module evaluates the container-level part of a function without running
it: python containers, strings and numbers are computed; everything else (arrays, meshes, calls into numpy) is an
`Opaque` value that only carries its own text.  Tests on opaque values are answered by the rule's `decide(text)` callback
(one call of `run` = one configuration, e.g. "mesh with vertex colours, normals requested"); a test the callback does not
answer raises `Undecided` - the rule then reports that configuration as not decided.

    ev = ContEval(ix, decide=lambda text: {...}.get(text))
    env = ev.run(fi, {"mesh": Opaque("mesh"), "encoding": "ascii"})
    env["header"]                    -> ['ply\\nformat ...', 'element vertex ...', ...]
    env["pack_vertex"].call          -> ('numpy.zeros', [Opaque('len(mesh.vertices)')], {'dtype': [('vertex', '<f4', 3), ...]})

Calls of functions of the repository are followed (bounded depth) with the caller's containers passed by reference, so a
helper that appends to the list it receives is seen.  Module-level literals are read from the index; JSON resources of the
repository are read as data through a stub (`stubs['trimesh.resources.get_json']`).
"""
from __future__ import annotations

import ast
import json
import os

from .index import FuncInfo


class Undecided(Exception):
    pass


class _Stop(Exception):
    pass


class Opaque:
    __slots__ = ("text", "call")

    def __init__(self, text, call=None):
        self.text = text
        self.call = call

    def __repr__(self):
        return f"<{self.text[:60]}>"


def text_of(v):
    if isinstance(v, Opaque):
        return v.text
    if isinstance(v, _View):
        return f"{text_of(v.base)}.{v.kind}()"
    return repr(v)


class _View:
    """dict.items() / keys() / values() of a concrete dict (live)"""

    def __init__(self, base, kind):
        self.base, self.kind = base, kind

    def __iter__(self):
        return iter(getattr(self.base, self.kind)())

    def __len__(self):
        return len(self.base)


_PURE_BUILTINS = {"len": len, "list": list, "tuple": tuple, "dict": dict, "set": set, "sorted": sorted, "range": range, "enumerate": enumerate,
                  "zip": zip, "str": str, "int": int, "float": float, "bool": bool, "min": min, "max": max, "sum": sum, "any": any, "all": all,
                  "reversed": reversed, "abs": abs, "repr": repr, "frozenset": frozenset}


def _concrete(v):
    if isinstance(v, (Opaque,)):
        return False
    if isinstance(v, _View):
        return _concrete(v.base)
    if isinstance(v, (list, tuple, set, frozenset)):
        return True  # the container itself is known (its elements may be opaque)
    return True


def _deep_concrete(v):
    if isinstance(v, Opaque):
        return False
    if isinstance(v, _View):
        return _deep_concrete(v.base)
    if isinstance(v, (list, tuple, set, frozenset)):
        return all(_deep_concrete(x) for x in v)
    if isinstance(v, dict):
        return all(_deep_concrete(k) and _deep_concrete(x) for k, x in v.items())
    return True


class ContEval:
    def __init__(self, ix, decide=None, stubs=None, call_depth=2, max_steps=50000):
        self.ix = ix
        self.decide = decide or (lambda text: None)
        self.stubs = dict(stubs or {})
        self.call_depth = call_depth
        self.steps = max_steps
        self.calls = []  # (callee text, args, kwargs, result) of every opaque call, in order
        self.stores = []  # (base text, key, value) of stores into opaque containers, in order
        self.stubs.setdefault("trimesh.resources.get_json", self._get_json)

    # ---- stubs
    def _get_json(self, args, kw):
        if args and isinstance(args[0], str):
            p = os.path.join(self.ix.root, "resources", args[0])
            if os.path.exists(p):
                with open(p) as f:
                    return json.load(f)
        return Opaque(f"trimesh.resources.get_json({', '.join(text_of(a) for a in args)})")

    # ---- driver
    def run(self, fi: FuncInfo, args, depth=0):
        a = fi.node.args
        env = {}
        names = [x.arg for x in a.posonlyargs + a.args]
        defaults = dict(zip(names[len(names) - len(a.defaults):], a.defaults))
        for k, d in zip(a.kwonlyargs, a.kw_defaults):
            names.append(k.arg)
            if d is not None:
                defaults[k.arg] = d
        frame = {"fi": fi, "env": env, "depth": depth, "ret": None}
        if depth == 0:
            self.last_env = env
        for n in names:
            if n in args:
                env[n] = args[n]
            elif n in defaults:
                env[n] = self.ev(defaults[n], frame)
            else:
                env[n] = Opaque(n)
        try:
            self.block(fi.node.body, frame)
        except _Stop:
            pass
        env["<return>"] = frame["ret"]
        return env

    def block(self, body, fr):
        for st in body:
            self.stmt(st, fr)

    # ---- statements
    def stmt(self, st, fr):
        self.steps -= 1
        if self.steps < 0:
            raise Undecided("step budget exhausted")
        env = fr["env"]
        if isinstance(st, ast.Assign):
            v = self.ev(st.value, fr)
            for t in st.targets:
                self.bind(t, v, fr)
        elif isinstance(st, ast.AnnAssign):
            if st.value is not None:
                self.bind(st.target, self.ev(st.value, fr), fr)
        elif isinstance(st, ast.AugAssign):
            cur = self.ev(_load(st.target), fr)
            rhs = self.ev(st.value, fr)
            if isinstance(cur, list) and isinstance(st.op, ast.Add) and isinstance(rhs, (list, tuple)):
                cur.extend(rhs)  # in place, like python
            else:
                self.bind(st.target, self.binop(st.op, cur, rhs, st), fr)
        elif isinstance(st, ast.Expr):
            self.ev(st.value, fr)
        elif isinstance(st, ast.If):
            self.block(st.body if self.truth(self.ev(st.test, fr)) else st.orelse, fr)
        elif isinstance(st, ast.For):
            it = self.ev(st.iter, fr)
            if isinstance(it, (list, tuple, set, frozenset, dict, _View, range, enumerate, zip, reversed)) or (hasattr(it, "__iter__") and not isinstance(it, (Opaque, str))):
                items = list(it)
                for x in items:
                    self.bind(st.target, x, fr)
                    try:
                        self.block(st.body, fr)
                    except _Break:
                        break
                    except _Continue:
                        continue
                else:
                    self.block(st.orelse, fr)
            else:
                self.havoc(st, fr)
        elif isinstance(st, ast.While):
            self.havoc(st, fr)
        elif isinstance(st, ast.Return):
            fr["ret"] = self.ev(st.value, fr) if st.value is not None else None
            raise _Stop
        elif isinstance(st, ast.Raise):
            raise _Stop
        elif isinstance(st, ast.Try):
            self.block(st.body, fr)
            self.block(st.orelse, fr)
            self.block(st.finalbody, fr)
        elif isinstance(st, (ast.With, ast.AsyncWith)):
            for item in st.items:
                v = self.ev(item.context_expr, fr)
                if item.optional_vars is not None:
                    self.bind(item.optional_vars, v, fr)
            self.block(st.body, fr)
        elif isinstance(st, (ast.FunctionDef, ast.AsyncFunctionDef, ast.ClassDef)):
            env[st.name] = Opaque(st.name)
        elif isinstance(st, ast.Break):
            raise _Break
        elif isinstance(st, ast.Continue):
            raise _Continue
        elif isinstance(st, ast.Delete):
            for t in st.targets:
                if isinstance(t, ast.Name):
                    env.pop(t.id, None)
        # Import / Pass / Assert / Global / Nonlocal: nothing to do

    def havoc(self, st, fr):
        """a loop that cannot be unrolled: every name it stores becomes opaque"""
        for x in ast.walk(st):
            if isinstance(x, ast.Name) and isinstance(x.ctx, ast.Store):
                fr["env"][x.id] = Opaque(x.id)

    def bind(self, t, v, fr):
        env = fr["env"]
        if isinstance(t, ast.Name):
            env[t.id] = v
        elif isinstance(t, (ast.Tuple, ast.List)):
            vals = list(v) if isinstance(v, (list, tuple)) and not any(isinstance(e, ast.Starred) for e in t.elts) and len(v) == len(t.elts) else None
            for i, e in enumerate(t.elts):
                self.bind(e.value if isinstance(e, ast.Starred) else e, vals[i] if vals is not None else Opaque(f"{text_of(v)}[{i}]"), fr)
        elif isinstance(t, ast.Subscript):
            base = self.ev(t.value, fr)
            key = self.ev(t.slice, fr)
            if isinstance(base, dict) and _hashable(key):
                base[key] = v
            elif isinstance(base, list) and isinstance(key, int) and -len(base) <= key < len(base):
                base[key] = v
            else:
                self.stores.append((text_of(base), key, v))
        elif isinstance(t, ast.Attribute):
            self.stores.append((text_of(self.ev(t.value, fr)), "." + t.attr, v))

    # ---- expressions
    def truth(self, v):
        if isinstance(v, Opaque):
            r = self.decide(v.text)
            if r is None:
                raise Undecided(v.text)
            return bool(r)
        if isinstance(v, _View):
            return len(v) > 0
        return bool(v)

    def ev(self, e, fr):
        env = fr["env"]
        if isinstance(e, ast.Constant):
            return e.value
        if isinstance(e, ast.Name):
            if e.id in env:
                return env[e.id]
            if e.id in ("True", "False", "None"):
                return {"True": True, "False": False, "None": None}[e.id]
            return self.global_name(e.id, fr)
        if isinstance(e, (ast.List, ast.Tuple, ast.Set)):
            out = []
            for x in e.elts:
                if isinstance(x, ast.Starred):
                    v = self.ev(x.value, fr)
                    if isinstance(v, (list, tuple, set, frozenset, _View)):
                        out.extend(list(v))
                    else:
                        return Opaque(ast.unparse(e))
                else:
                    out.append(self.ev(x, fr))
            if isinstance(e, ast.List):
                return out
            if isinstance(e, ast.Tuple):
                return tuple(out)
            return set(x for x in out if _hashable(x))
        if isinstance(e, ast.Dict):
            d = {}
            for k, v in zip(e.keys, e.values):
                if k is None:
                    inner = self.ev(v, fr)
                    if isinstance(inner, dict):
                        d.update(inner)
                    else:
                        return Opaque(ast.unparse(e))
                else:
                    kk = self.ev(k, fr)
                    if not _hashable(kk):
                        return Opaque(ast.unparse(e))
                    d[kk] = self.ev(v, fr)
            return d
        if isinstance(e, ast.Subscript):
            base = self.ev(e.value, fr)
            if isinstance(e.slice, ast.Slice):
                lo, hi, stp = (self.ev(x, fr) if x is not None else None for x in (e.slice.lower, e.slice.upper, e.slice.step))
                if isinstance(base, (list, tuple, str)) and all(x is None or isinstance(x, int) for x in (lo, hi, stp)):
                    return base[lo:hi:stp]
                return Opaque(f"{text_of(base)}[{ast.unparse(e.slice)}]")
            key = self.ev(e.slice, fr)
            try:
                if isinstance(base, dict) and _hashable(key) and key in base:
                    return base[key]
                if isinstance(base, (list, tuple, str)) and isinstance(key, int):
                    return base[key]
            except (KeyError, IndexError):
                pass
            return Opaque(f"{text_of(base)}[{text_of(key)}]")
        if isinstance(e, ast.Attribute):
            base = self.ev(e.value, fr)
            if isinstance(base, Opaque):
                return Opaque(f"{base.text}.{e.attr}")
            return _Method(base, e.attr)
        if isinstance(e, ast.Call):
            return self.call(e, fr)
        if isinstance(e, ast.Compare):
            left = self.ev(e.left, fr)
            vals = [left] + [self.ev(c, fr) for c in e.comparators]
            res = True
            for op, a, b in zip(e.ops, vals, vals[1:]):
                r = self.compare(op, a, b)
                if isinstance(r, Opaque):
                    if len(e.ops) == 1:
                        return r
                    return Opaque(ast.unparse(e))
                res = res and r
                if not res:
                    return False
            return res
        if isinstance(e, ast.BoolOp):
            is_and = isinstance(e.op, ast.And)
            last = None
            for x in e.values:
                last = self.ev(x, fr)
                t = self.truth(last)
                if t != is_and:
                    return last if not isinstance(last, Opaque) else t
            return last if not isinstance(last, Opaque) else is_and
        if isinstance(e, ast.UnaryOp):
            v = self.ev(e.operand, fr)
            if isinstance(e.op, ast.Not):
                return not self.truth(v)
            if isinstance(v, (int, float)) and not isinstance(v, bool):
                return -v if isinstance(e.op, ast.USub) else (+v if isinstance(e.op, ast.UAdd) else ~v)
            return Opaque(ast.unparse(e.op).strip() + text_of(v)) if False else Opaque(f"{'-' if isinstance(e.op, ast.USub) else '~'}{text_of(v)}")
        if isinstance(e, ast.BinOp):
            return self.binop(e.op, self.ev(e.left, fr), self.ev(e.right, fr), e)
        if isinstance(e, ast.IfExp):
            return self.ev(e.body if self.truth(self.ev(e.test, fr)) else e.orelse, fr)
        if isinstance(e, (ast.ListComp, ast.SetComp, ast.GeneratorExp, ast.DictComp)):
            return self.comp(e, fr)
        if isinstance(e, ast.JoinedStr):
            parts = []
            for x in e.values:
                if isinstance(x, ast.Constant):
                    parts.append(str(x.value))
                else:
                    v = self.ev(x.value, fr)
                    if isinstance(v, (str, int, float)) and x.format_spec is None and x.conversion == -1:
                        parts.append(str(v))
                    else:
                        return Opaque(ast.unparse(e))
            return "".join(parts)
        if isinstance(e, ast.Starred):
            return self.ev(e.value, fr)
        if isinstance(e, ast.NamedExpr):
            v = self.ev(e.value, fr)
            self.bind(e.target, v, fr)
            return v
        return Opaque(ast.unparse(e))

    def global_name(self, name, fr):
        m = fr["fi"].module
        cs = m.constants.get(name)
        if cs and len(cs) == 1:
            try:
                return ast.literal_eval(cs[0].value)
            except (ValueError, SyntaxError):
                pass
        r = self.ix.resolve_name(m, name)
        if isinstance(r, str):
            return Opaque(r)
        if isinstance(r, FuncInfo):
            return Opaque(f"{r.module.name}.{r.qualname}")
        if r is not None and hasattr(r, "name") and not isinstance(r, tuple):
            return Opaque(getattr(r, "dotted", None) or r.name)
        return Opaque(name)

    def compare(self, op, a, b):
        import operator as o

        if not isinstance(a, Opaque) and not isinstance(b, Opaque) and not isinstance(a, _Method) and not isinstance(b, _Method):
            try:
                if isinstance(op, ast.In):
                    return a in (b.base if isinstance(b, _View) and b.kind == "keys" else (list(b) if isinstance(b, _View) else b))
                if isinstance(op, ast.NotIn):
                    return a not in (b.base if isinstance(b, _View) and b.kind == "keys" else (list(b) if isinstance(b, _View) else b))
                if isinstance(op, ast.Is):
                    return a is b
                if isinstance(op, ast.IsNot):
                    return a is not b
                fn = {ast.Eq: o.eq, ast.NotEq: o.ne, ast.Lt: o.lt, ast.LtE: o.le, ast.Gt: o.gt, ast.GtE: o.ge}[type(op)]
                if _deep_concrete(a) and _deep_concrete(b):
                    return bool(fn(a, b))
            except Exception:  # noqa
                pass
        # what a numpy constructor returns is not None
        if isinstance(op, (ast.Is, ast.IsNot)) and (a is None or b is None):
            other = b if a is None else a
            if isinstance(other, Opaque) and other.call is not None and str(other.call[0]).startswith(("numpy.", "<")):
                return isinstance(op, ast.IsNot)
        sym = {ast.Eq: "==", ast.NotEq: "!=", ast.Lt: "<", ast.LtE: "<=", ast.Gt: ">", ast.GtE: ">=", ast.In: "in", ast.NotIn: "not in",
               ast.Is: "is", ast.IsNot: "is not"}[type(op)]
        return Opaque(f"{text_of(a)} {sym} {text_of(b)}")

    def binop(self, op, a, b, node):
        import operator as o

        fn = {ast.Add: o.add, ast.Sub: o.sub, ast.Mult: o.mul, ast.Mod: o.mod, ast.FloorDiv: o.floordiv, ast.Div: o.truediv, ast.Pow: o.pow,
              ast.BitOr: o.or_, ast.BitAnd: o.and_}.get(type(op))
        ok = (int, float, str, list, tuple, set, frozenset, dict)
        if fn is not None and isinstance(a, ok) and isinstance(b, ok) and not isinstance(a, bool) | False:
            try:
                if isinstance(a, str) and isinstance(op, ast.Mod) and not _deep_concrete(b):
                    raise TypeError
                return fn(a, b)
            except Exception:  # noqa
                pass
        sym = {ast.Add: "+", ast.Sub: "-", ast.Mult: "*", ast.Mod: "%", ast.FloorDiv: "//", ast.Div: "/", ast.Pow: "**", ast.BitOr: "|", ast.BitAnd: "&",
               ast.MatMult: "@", ast.LShift: "<<", ast.RShift: ">>", ast.BitXor: "^"}.get(type(op), "?")
        return Opaque(f"{text_of(a)} {sym} {text_of(b)}")

    def comp(self, e, fr):
        saved = dict(fr["env"])
        out = [] if not isinstance(e, ast.DictComp) else {}
        ok = True

        def rec(i):
            nonlocal ok
            if i == len(e.generators):
                if isinstance(e, ast.DictComp):
                    k = self.ev(e.key, fr)
                    if _hashable(k):
                        out[k] = self.ev(e.value, fr)
                    else:
                        ok = False
                else:
                    out.append(self.ev(e.elt, fr))
                return
            g = e.generators[i]
            it = self.ev(g.iter, fr)
            if isinstance(it, (Opaque, _Method, str)) or not hasattr(it, "__iter__"):
                ok = False
                return
            for x in list(it):
                self.bind(g.target, x, fr)
                if all(self.truth(self.ev(c, fr)) for c in g.ifs):
                    rec(i + 1)

        try:
            rec(0)
        finally:
            fr["env"].clear()
            fr["env"].update(saved)
        if not ok:
            return Opaque(ast.unparse(e))
        if isinstance(e, ast.SetComp):
            return set(x for x in out if _hashable(x))
        return out

    def call(self, e, fr):
        f = e.func
        args, kw = [], {}
        for a in e.args:
            if isinstance(a, ast.Starred):
                v = self.ev(a.value, fr)
                if isinstance(v, (list, tuple)):
                    args.extend(v)
                else:
                    args.append(Opaque("*" + text_of(v)))
            else:
                args.append(self.ev(a, fr))
        for k in e.keywords:
            v = self.ev(k.value, fr)
            if k.arg is None:
                if isinstance(v, dict) and all(isinstance(x, str) for x in v):
                    kw.update(v)
                else:
                    kw["**"] = v
            else:
                kw[k.arg] = v
        # builtins on known values
        if isinstance(f, ast.Name) and f.id not in fr["env"]:
            if f.id == "hasattr" and len(args) == 2 and isinstance(args[1], str):
                if isinstance(args[0], Opaque):
                    return Opaque(f"hasattr({args[0].text}, {args[1]!r})")
                return hasattr(args[0], args[1])
            if f.id == "isinstance" and len(args) == 2:
                if isinstance(args[0], Opaque):
                    return Opaque(f"isinstance({args[0].text}, {text_of(args[1])})")
            if f.id in _PURE_BUILTINS and not kw:
                vals = [list(a) if isinstance(a, _View) else a for a in args]
                if all(not isinstance(a, (Opaque, _Method)) for a in vals) and (f.id in ("len", "list", "tuple", "enumerate", "zip", "range", "reversed", "bool", "dict", "set", "sorted")
                                                                                  or all(_deep_concrete(a) for a in vals)):
                    try:
                        r = _PURE_BUILTINS[f.id](*vals)
                        return list(r) if f.id in ("enumerate", "zip", "reversed", "range") else r
                    except Exception:  # noqa
                        pass
        fv = self.ev(f, fr) if not isinstance(f, ast.Name) or f.id in fr["env"] else self.global_name(f.id, fr)
        # methods of known containers / strings
        if isinstance(fv, _Method):
            return fv.invoke(self, args, kw, e)
        name = fv.text if isinstance(fv, Opaque) else ast.unparse(f)
        name = {"np": "numpy"}.get(name.split(".")[0], name.split(".")[0]) + name[len(name.split(".")[0]):]
        if name in self.stubs:
            return self.stubs[name](args, kw)
        # functions of the repository: followed, containers by reference
        target = self.ix.resolve_dotted(name) if "." in name else None
        if isinstance(target, FuncInfo) and target.cls is None and fr["depth"] < self.call_depth and not target.node.decorator_list:
            a = target.node.args
            if not a.vararg and not a.kwarg and "**" not in kw:
                names = [x.arg for x in a.posonlyargs + a.args]
                if len(args) <= len(names) and all(k in names + [x.arg for x in a.kwonlyargs] for k in kw):
                    bound = dict(zip(names, args))
                    bound.update(kw)
                    try:
                        env2 = self.run(target, bound, fr["depth"] + 1)
                        return env2["<return>"]
                    except Undecided:
                        pass
        r = Opaque(f"{name}({', '.join([text_of(a) for a in args] + [f'{k}={text_of(v)}' for k, v in kw.items()])})"[:400], call=(name, args, kw))
        self.calls.append((name, args, kw, r))
        return r


class _Break(Exception):
    pass


class _Continue(Exception):
    pass


class _Method:
    """bound method of a known python value"""

    def __init__(self, base, attr):
        self.base, self.attr = base, attr

    def invoke(self, ev, args, kw, node):
        b, a = self.base, self.attr
        try:
            if isinstance(b, dict):
                if a in ("items", "keys", "values") and not args:
                    return _View(b, a)
                if a == "update":
                    for x in args:
                        if isinstance(x, dict):
                            b.update(x)
                        elif isinstance(x, (list, tuple)):
                            b.update(dict(x))
                        else:
                            raise Undecided(f"dict.update({text_of(x)})")
                    b.update(kw)
                    return None
                if a in ("get", "pop", "setdefault", "copy") and all(_hashable(x) for x in args[:1]):
                    return getattr(b, a)(*args)
            elif isinstance(b, list):
                if a in ("append", "extend", "insert", "pop", "copy", "index", "count", "remove", "reverse", "clear"):
                    if a == "extend" and args and not isinstance(args[0], (list, tuple, set, _View)):
                        raise Undecided(f"list.extend({text_of(args[0])})")
                    return getattr(b, a)(*[list(x) if isinstance(x, _View) else x for x in args])
                if a == "sort" and _deep_concrete(b):
                    return b.sort(**kw)
            elif isinstance(b, (set,)):
                if a in ("add", "update", "discard", "copy") and all(_hashable(x) or isinstance(x, (list, set, tuple)) for x in args):
                    return getattr(b, a)(*args)
            elif isinstance(b, str):
                if a == "join" and args and isinstance(args[0], (list, tuple)) and all(isinstance(x, str) for x in args[0]):
                    return b.join(args[0])
                if a in ("format", "split", "strip", "lstrip", "rstrip", "startswith", "endswith", "lower", "upper", "replace", "encode", "splitlines") \
                        and all(_deep_concrete(x) for x in args) and all(_deep_concrete(x) for x in kw.values()):
                    return getattr(b, a)(*args, **kw)
            elif isinstance(b, tuple) and a in ("index", "count"):
                return getattr(b, a)(*args)
        except Undecided:
            raise
        except Exception:  # noqa
            pass
        r = Opaque(f"{text_of(b)[:120]}.{a}({', '.join(text_of(x) for x in args)})", call=(f"<{type(b).__name__}>.{a}", args, kw))
        ev.calls.append((r.call[0], args, kw, r))
        return r


def _hashable(k):
    try:
        hash(k)
    except TypeError:
        return False
    return not isinstance(k, Opaque)


def _load(t):
    import copy

    t2 = copy.deepcopy(t)
    for x in ast.walk(t2):
        if hasattr(x, "ctx"):
            x.ctx = ast.Load()
    return t2
