"""Normal forms of the tree under analysis (second opinion before a rule instance is reported).

A rule written against the shape the code has today must not fire when a maintainer extracts a few lines into
a private helper, or gives an intermediate value a name.  Instead of teaching every rule every such shape, the
check that found something re-decides it on *normal forms* of the same tree, computed from the current source
on every run by rewrites that keep what the program computes:

  inline   calls to small private helpers (`_name(...)`, `self._name(...)`) are replaced by the helper's body with
           parameters bound to the arguments (single-exit lowering of early returns, locals renamed on collision);
  fold     a local that is assigned once and read once, with nothing in between that could change what its
           right-hand side reads, is substituted into its single use (named intermediate steps disappear).

A view is a scratch copy of the package with the rewritten modules (`ast.unparse`), analysed by the very same
rules through the very same engines (`--repo <view>` semantics).  The verdict rule is in sa/cli.py: a finding of
rule R on the source as written stands unless some view is analysed without error, evaluates at least as many
instances of R, and reports nothing for R.  Views never add findings when the source as written is clean (they
are not even built then), so they can only remove alarms on equivalent code - and a real defect survives every
view because the rewrites do not change behaviour (up to evaluation order inside one statement, see DESIGN 6.3).
"""
from __future__ import annotations

import ast
import builtins
import copy
import json
import os
import shutil
import tempfile

from .index import PKG, ClassInfo, FuncInfo, Index

MAX_STMTS = 45
MAX_DEPTH = 3


class NotInlineable(Exception):
    pass


# ---------------------------------------------------------------------------------------------- helpers
def _own_nodes(fnode):
    """nodes of a function body, not descending into nested defs / classes (lambdas and comprehensions are entered)"""
    todo = list(fnode.body)
    while todo:
        n = todo.pop()
        yield n
        for c in ast.iter_child_nodes(n):
            if isinstance(c, (ast.FunctionDef, ast.AsyncFunctionDef, ast.ClassDef)):
                continue
            todo.append(c)


def _stored(fnode):
    out = set()
    for n in _own_nodes(fnode):
        if isinstance(n, ast.Name) and isinstance(n.ctx, (ast.Store, ast.Del)):
            out.add(n.id)
        elif isinstance(n, (ast.Import, ast.ImportFrom)):
            for a in n.names:
                out.add((a.asname or a.name).split(".")[0])
        elif isinstance(n, ast.ExceptHandler) and n.name:
            out.add(n.name)
    return out


def _params(fnode):
    a = fnode.args
    out = [x.arg for x in a.posonlyargs + a.args + a.kwonlyargs]
    if a.vararg:
        out.append(a.vararg.arg)
    if a.kwarg:
        out.append(a.kwarg.arg)
    return out


def _all_names(fnode):
    out = set(_params(fnode))
    for n in ast.walk(fnode):
        if isinstance(n, ast.Name):
            out.add(n.id)
        elif isinstance(n, ast.arg):
            out.add(n.arg)
    return out


def _simple(e):
    if isinstance(e, (ast.Name, ast.Constant)):
        return True
    if isinstance(e, ast.Attribute):
        return _simple(e.value)
    if isinstance(e, ast.UnaryOp) and isinstance(e.operand, ast.Constant):
        return True
    return False


def _body_wo_doc(fnode):
    b = list(fnode.body)
    if b and isinstance(b[0], ast.Expr) and isinstance(b[0].value, ast.Constant) and isinstance(b[0].value.value, str):
        b = b[1:]
    return b


def _has_return(nodes):
    for st in nodes:
        for n in ast.walk(st):
            if isinstance(n, ast.Return):
                return True
    return False


class _Rename(ast.NodeTransformer):
    """substitute parameter loads by argument expressions and rename locals"""

    def __init__(self, subst, rename):
        self.subst = subst
        self.rename = rename

    def visit_Name(self, node):
        if node.id in self.subst and isinstance(node.ctx, ast.Load):
            return copy.deepcopy(self.subst[node.id])
        if node.id in self.rename:
            return ast.copy_location(ast.Name(id=self.rename[node.id], ctx=node.ctx), node)
        return node

    def visit_ExceptHandler(self, node):
        self.generic_visit(node)
        if node.name in self.rename:
            node.name = self.rename[node.name]
        return node

    def visit_arg(self, node):  # lambda parameters shadow
        return node

    def visit_Lambda(self, node):
        shadow = set(_params_of_lambda(node))
        inner = _Rename({k: v for k, v in self.subst.items() if k not in shadow}, {k: v for k, v in self.rename.items() if k not in shadow})
        node.body = inner.visit(node.body)
        return node


def _params_of_lambda(lam):
    a = lam.args
    out = [x.arg for x in a.posonlyargs + a.args + a.kwonlyargs]
    if a.vararg:
        out.append(a.vararg.arg)
    if a.kwarg:
        out.append(a.kwarg.arg)
    return out


def _lower(stmts, res):
    """single-exit form: `return E` becomes `res = E`; code after an if that returns moves into the other branch.
    returns (statements, every path ended in a return)"""
    out = []
    for i, st in enumerate(stmts):
        if isinstance(st, ast.Return):
            if st.value is not None and res:
                out.append(ast.copy_location(ast.Assign(targets=[ast.Name(id=res, ctx=ast.Store())], value=st.value, lineno=st.lineno), st))
            elif st.value is not None and not isinstance(st.value, (ast.Constant, ast.Name)):
                out.append(ast.copy_location(ast.Expr(value=st.value), st))
            elif res:
                out.append(ast.copy_location(ast.Assign(targets=[ast.Name(id=res, ctx=ast.Store())], value=ast.Constant(value=None), lineno=st.lineno), st))
            return out, True
        if isinstance(st, ast.Raise):
            out.append(st)
            return out, True
        if isinstance(st, ast.If):
            rest = list(stmts[i + 1:])
            b, bt = _lower(list(st.body), res)
            o, ot = _lower(list(st.orelse), res)
            if bt and ot:
                out.append(ast.copy_location(ast.If(test=st.test, body=b or [ast.Pass()], orelse=o), st))
                return out, True
            if bt and _has_return(st.body):
                o2, t2 = _lower(list(st.orelse) + rest, res)
                out.append(ast.copy_location(ast.If(test=st.test, body=b or [ast.Pass()], orelse=o2), st))
                return out, t2
            if ot and _has_return(st.orelse):
                b2, t2 = _lower(list(st.body) + rest, res)
                out.append(ast.copy_location(ast.If(test=st.test, body=b2 or [ast.Pass()], orelse=o), st))
                return out, t2
            if _has_return([st]):
                # a return on some but not all paths of a branch: nested handling gets too clever
                raise NotInlineable("partial return under if")
            out.append(st)
            continue
        if _has_return([st]):
            raise NotInlineable("return inside loop / with / try")
        out.append(st)
    return out, False


# ---------------------------------------------------------------------------------------------- inliner
class Inliner:
    def __init__(self, ix: Index, max_stmts=None):
        self.ix = ix
        self.max_stmts = max_stmts or MAX_STMTS
        self.count = 0
        self.sites = []
        self.inlined = set()
        self.into = {}

    # ---- which callee
    def callee(self, fi: FuncInfo, call: ast.Call):
        f = call.func
        m = fi.module
        target = None
        recv = None
        if isinstance(f, ast.Name):
            if not (f.id.startswith("_") and not f.id.startswith("__")):
                return None
            r = self.ix.resolve_name(m, f.id)
            if isinstance(r, FuncInfo) and r.cls is None and r.parent is None:
                target = r
        elif isinstance(f, ast.Attribute) and f.attr.startswith("_") and not f.attr.startswith("__"):
            if isinstance(f.value, ast.Name) and f.value.id in ("self", "cls") and fi.cls is not None and fi.params and fi.params[0] == f.value.id:
                mem = self.ix.member(fi.cls, f.attr)
                r = mem.get("method") if mem else None
                if isinstance(r, FuncInfo) and r.kind in ("method", "staticmethod", "classmethod"):
                    # no other definition of that name in the hierarchy below or above
                    others = [c for c in self.ix.all_subclasses(fi.cls) + list(fi.cls.mro) if c is not mem["owner"] and f.attr in c.methods]
                    if not others:
                        target = r
                        recv = f.value if r.kind in ("method", "classmethod") else None
            else:
                r = self.ix.resolve_expr(m, f)
                if isinstance(r, FuncInfo) and r.cls is None and r.parent is None:
                    target = r
                elif isinstance(r, FuncInfo) and r.kind == "staticmethod":
                    target = r
        if target is None or target is fi:
            return None
        if not self.inlineable(target, fi):
            return None
        return target, recv

    def inlineable(self, t: FuncInfo, caller: FuncInfo):
        n = t.node
        if isinstance(n, ast.AsyncFunctionDef):
            return False
        decs = [ast.unparse(d) for d in n.decorator_list]
        if any(d not in ("staticmethod", "classmethod") for d in decs):
            return False
        a = n.args
        if a.vararg or a.kwarg:
            return False
        if sum(isinstance(x, ast.stmt) for x in ast.walk(n)) - 1 > self.max_stmts:
            return False
        for x in ast.walk(n):
            if isinstance(x, (ast.Yield, ast.YieldFrom, ast.Await, ast.Global, ast.Nonlocal)):
                return False
            if isinstance(x, (ast.FunctionDef, ast.AsyncFunctionDef, ast.ClassDef)) and x is not n:
                return False
            if isinstance(x, ast.Name) and x.id in ("super", "locals", "vars", "globals"):
                return False
            if isinstance(x, ast.Call) and isinstance(x.func, ast.Name) and x.func.id == t.name:
                return False
        # free names must mean the same thing at the call site
        if t.module is not caller.module:
            local = _stored(n) | set(_params(n))
            for x in ast.walk(n):
                if isinstance(x, ast.Name) and isinstance(x.ctx, ast.Load) and x.id not in local and not hasattr(builtins, x.id):
                    a_ = t.module.imports.get(x.id)
                    b_ = caller.module.imports.get(x.id)
                    if a_ is None or a_ != b_:
                        return False
        return True

    # ---- binding
    def bind(self, t: FuncInfo, call: ast.Call, recv):
        a = t.node.args
        names = [x.arg for x in a.posonlyargs + a.args]
        defaults = dict(zip(names[len(names) - len(a.defaults):], a.defaults))
        for k, d in zip(a.kwonlyargs, a.kw_defaults):
            if d is not None:
                defaults[k.arg] = d
        bound = {}
        pos = list(call.args)
        if any(isinstance(x, ast.Starred) for x in pos) or any(k.arg is None for k in call.keywords):
            raise NotInlineable("starred call")
        params = list(names)
        if recv is not None:
            bound[params[0]] = recv
            params = params[1:]
        if len(pos) > len(params):
            raise NotInlineable("too many positionals")
        for p, v in zip(params, pos):
            bound[p] = v
        for k in call.keywords:
            if k.arg in bound or k.arg not in names + [x.arg for x in a.kwonlyargs]:
                raise NotInlineable("bad keyword")
            bound[k.arg] = k.value
        for p in names + [x.arg for x in a.kwonlyargs]:
            if p not in bound:
                if p not in defaults:
                    raise NotInlineable("unbound parameter")
                bound[p] = defaults[p]
        return bound

    def instantiate(self, fi_names, t: FuncInfo, call, recv, res, keep_returns=False):
        """(prelude statements, result expression or None)"""
        bound = self.bind(t, call, recv)
        stored = _stored(t.node)
        subst, rename, prelude = {}, {}, []
        tag = t.name.strip("_")

        def fresh(x):
            return x if x not in fi_names else f"{x}_{tag}"

        for p, v in bound.items():
            if _simple(v) and p not in stored:
                subst[p] = v
            else:
                rename[p] = fresh(p)
                prelude.append(ast.Assign(targets=[ast.Name(id=rename[p], ctx=ast.Store())], value=copy.deepcopy(v), lineno=call.lineno))
        for x in stored:
            if x not in rename:
                rename[x] = fresh(x)
        body = [copy.deepcopy(s) for s in _body_wo_doc(t.node)]
        body = [_Rename(subst, rename).visit(s) for s in body]
        if keep_returns:
            if not body or not isinstance(body[-1], (ast.Return, ast.Raise)):
                body.append(ast.Return(value=ast.Constant(value=None)))
            return prelude + body, None
        low, term = _lower(body, res)
        if res and not term:
            prelude.append(ast.Assign(targets=[ast.Name(id=res, ctx=ast.Store())], value=ast.Constant(value=None), lineno=call.lineno))
        return prelude + low, (ast.Name(id=res, ctx=ast.Load()) if res else None)

    # ---- statement level
    def _find_call(self, fi, st):
        """first inlineable call evaluated exactly once by the simple statement / header expression"""
        roots = []
        if isinstance(st, (ast.Assign, ast.AnnAssign, ast.AugAssign, ast.Return, ast.Expr)):
            if getattr(st, "value", None) is not None:
                roots.append(st.value)
        elif isinstance(st, ast.If):
            roots.append(st.test)
        elif isinstance(st, (ast.For,)):
            roots.append(st.iter)
        found = []

        def rec(e, once):
            if isinstance(e, (ast.Lambda, ast.ListComp, ast.SetComp, ast.DictComp, ast.GeneratorExp)):
                once = False
            if isinstance(e, ast.Call):
                c = self.callee(fi, e)
                if c is not None:
                    found.append((e, c, once))
            if isinstance(e, ast.IfExp):
                rec(e.test, once)
                rec(e.body, False)
                rec(e.orelse, False)
                return
            if isinstance(e, ast.BoolOp):
                for i, v in enumerate(e.values):
                    rec(v, once and i == 0)
                return
            for c in ast.iter_child_nodes(e):
                rec(c, once)

        for r in roots:
            rec(r, True)
        return found

    def expand_block(self, fi, names, body, depth=0, stack=()):
        out = []
        for st in body:
            out.extend(self.expand_stmt(fi, names, st, depth, stack))
        return out

    def expand_stmt(self, fi, names, st, depth, stack):
        if isinstance(st, (ast.FunctionDef, ast.AsyncFunctionDef, ast.ClassDef)):
            return [st]
        # recurse into blocks first
        for fld in ("body", "orelse", "finalbody"):
            blk = getattr(st, fld, None)
            if isinstance(blk, list) and blk and isinstance(blk[0], ast.stmt):
                setattr(st, fld, self.expand_block(fi, names, blk, depth, stack))
        for h in getattr(st, "handlers", []) or []:
            h.body = self.expand_block(fi, names, h.body, depth, stack)
        if depth >= MAX_DEPTH:
            return [st]
        for call, (t, recv), once in self._find_call(fi, st):
            if t in stack:
                continue
            site = getattr(call, "lineno", getattr(st, "lineno", 0))
            try:
                b = _body_wo_doc(t.node)
                if len(b) == 1 and isinstance(b[0], ast.Return) and b[0].value is not None:
                    # expression helper: substitute in place, wherever it is
                    bound = self.bind(t, call, recv)
                    if not all(_simple(v) for v in bound.values()) and not once:
                        continue
                    pre, subst = [], {}
                    for p, v in bound.items():
                        subst[p] = v
                    expr = _Rename(subst, {}).visit(copy.deepcopy(b[0].value))
                    _replace(st, call, expr)
                    new = [st]
                elif isinstance(st, ast.Return) and st.value is call:
                    pre, _ = self.instantiate(names, t, call, recv, None, keep_returns=True)
                    new = pre
                elif not once:
                    continue
                else:
                    unused = isinstance(st, ast.Expr) and st.value is call
                    res = None if unused else f"_r_{t.name.strip('_')}"
                    pre, rexpr = self.instantiate(names, t, call, recv, res)
                    if unused:
                        new = pre
                    else:
                        # `res = E` as the last statement and the call being the whole value: write `T = E` directly
                        whole = getattr(st, "value", None) is call
                        last = pre[-1] if pre else None
                        n_res = sum(1 for s in pre for x in ast.walk(s) if isinstance(x, ast.Name) and x.id == res)
                        if whole and isinstance(last, ast.Assign) and len(last.targets) == 1 and isinstance(last.targets[0], ast.Name) \
                                and last.targets[0].id == res and n_res == 1:
                            st.value = last.value
                            new = pre[:-1] + [st]
                        else:
                            _replace(st, call, rexpr)
                            new = pre + [st]
                    if isinstance(st, (ast.If, ast.For)) and False:
                        pass
            except NotInlineable:
                continue
            for s in new:
                for x in ast.walk(s):
                    if isinstance(x, ast.stmt) and not hasattr(x, "_orig"):
                        x._orig = site
                    if not hasattr(x, "lineno") and isinstance(x, (ast.stmt, ast.expr)):
                        x.lineno = site
            self.count += 1
            self.inlined.add(t)
            self.into.setdefault(t.qualname, set()).add(fi.qualname)
            self.sites.append(f"{fi.module.rel}:{site} {fi.qualname} <- {t.qualname}")
            # the inlined body may itself call helpers
            return self.expand_block(fi, names, new, depth + 1, stack + (t,))
        return [st]


def _replace(st, old, new):
    class R(ast.NodeTransformer):
        def visit_Call(self, node):
            if node is old:
                return new
            return self.generic_visit(node)

    for fld, val in ast.iter_fields(st):
        if fld in ("body", "orelse", "finalbody", "handlers"):
            continue
        if isinstance(val, ast.AST):
            setattr(st, fld, R().visit(val))
        elif isinstance(val, list):
            setattr(st, fld, [R().visit(v) if isinstance(v, ast.AST) else v for v in val])


# ---------------------------------------------------------------------------------------------- fold single-use locals
_PURE = (ast.Name, ast.Constant, ast.BinOp, ast.UnaryOp, ast.Compare, ast.Tuple, ast.BoolOp, ast.operator, ast.unaryop, ast.cmpop,
         ast.boolop, ast.expr_context)


def _pure_local(e):
    return all(isinstance(n, _PURE) for n in ast.walk(e))


def _once_roots(st):
    if isinstance(st, (ast.Assign, ast.AnnAssign, ast.AugAssign, ast.Return, ast.Expr)):
        v = getattr(st, "value", None)
        out = [v] if v is not None else []
        if isinstance(st, ast.Assign):
            out += [t for t in st.targets if not isinstance(t, ast.Name)]
        elif isinstance(st, (ast.AugAssign, ast.AnnAssign)) and not isinstance(st.target, ast.Name):
            out.append(st.target)
        return out
    if isinstance(st, ast.If):
        return [st.test]
    if isinstance(st, ast.For):
        return [st.iter]
    if isinstance(st, ast.With):
        return [i.context_expr for i in st.items]
    if isinstance(st, ast.Raise):
        return [x for x in (st.exc, st.cause) if x is not None]
    if isinstance(st, ast.Assert):
        return [st.test]
    return []


def _load_once(root, name):
    """the Name node loading `name` if it is evaluated exactly once when root is evaluated, else None / 'no'"""
    hits = []

    def rec(e, once):
        if isinstance(e, (ast.Lambda, ast.ListComp, ast.SetComp, ast.DictComp, ast.GeneratorExp)):
            once = False
        if isinstance(e, ast.Name) and e.id == name and isinstance(e.ctx, ast.Load):
            hits.append((e, once))
        if isinstance(e, ast.IfExp):
            rec(e.test, once)
            rec(e.body, False)
            rec(e.orelse, False)
            return
        if isinstance(e, ast.BoolOp):
            for i, v in enumerate(e.values):
                rec(v, once and i == 0)
            return
        for c in ast.iter_child_nodes(e):
            rec(c, once)

    rec(root, True)
    return hits


class Folder:
    def __init__(self):
        self.count = 0

    def fold_function(self, fnode):
        params = set(_params(fnode))
        stores, loads = {}, {}
        for n in ast.walk(fnode):
            if isinstance(n, ast.Name):
                d = stores if isinstance(n.ctx, (ast.Store, ast.Del)) else loads
                d[n.id] = d.get(n.id, 0) + 1
            elif isinstance(n, (ast.Global, ast.Nonlocal)):
                for x in n.names:
                    stores[x] = 99
        cand = {x for x, k in stores.items() if k == 1 and loads.get(x, 0) == 1 and x not in params}
        if not cand:
            return
        self._fold_block(fnode.body, cand)
        for n in ast.walk(fnode):
            for fld in ("body", "orelse", "finalbody"):
                blk = getattr(n, fld, None)
                if n is not fnode and isinstance(blk, list) and blk and isinstance(blk[0], ast.stmt) \
                        and not isinstance(n, (ast.FunctionDef, ast.AsyncFunctionDef, ast.ClassDef)):
                    self._fold_block(blk, cand)
            if isinstance(n, ast.ExceptHandler):
                self._fold_block(n.body, cand)

    def _fold_block(self, blk, cand):
        changed = True
        while changed:
            changed = False
            for i, st in enumerate(blk):
                if not (isinstance(st, ast.Assign) and len(st.targets) == 1 and isinstance(st.targets[0], ast.Name) and st.targets[0].id in cand):
                    continue
                t, e = st.targets[0].id, st.value
                if isinstance(e, (ast.Lambda, ast.Yield, ast.Await, ast.NamedExpr)) or any(isinstance(x, (ast.NamedExpr, ast.Yield, ast.Await)) for x in ast.walk(e)):
                    continue
                free = {x.id for x in ast.walk(e) if isinstance(x, ast.Name)}
                pure = _pure_local(e)
                for j in range(i + 1, len(blk)):
                    use = blk[j]
                    hit = [h for r in _once_roots(use) for h in _load_once(r, t)]
                    # a use hidden deeper in this statement (its body, a nested def): give up on t
                    n_any = sum(1 for x in ast.walk(use) if isinstance(x, ast.Name) and x.id == t and isinstance(x.ctx, ast.Load))
                    if n_any and not (len(hit) == 1 and hit[0][1]):
                        break
                    if n_any:
                        node = hit[0][0]
                        _replace_node(use, node, copy.deepcopy(e))
                        del blk[i]
                        self.count += 1
                        changed = True
                        break
                    # an intervening statement: must not disturb what e reads
                    if not (isinstance(use, (ast.Assign, ast.AnnAssign)) and all(isinstance(x, ast.Name) for x in (use.targets if isinstance(use, ast.Assign) else [use.target]))):
                        break
                    tg = {x.id for x in (use.targets if isinstance(use, ast.Assign) else [use.target])}
                    if tg & free:
                        break
                    if not pure and use.value is not None and any(isinstance(x, (ast.Call, ast.Await, ast.Yield)) for x in ast.walk(use.value)):
                        break
                if changed:
                    break


def _replace_node(st, old, new):
    class R(ast.NodeTransformer):
        def visit_Name(self, node):
            return new if node is old else node

    for fld, val in ast.iter_fields(st):
        if fld in ("body", "orelse", "finalbody", "handlers"):
            continue
        if isinstance(val, ast.AST):
            setattr(st, fld, R().visit(val))
        elif isinstance(val, list):
            setattr(st, fld, [R().visit(v) if isinstance(v, ast.AST) else v for v in val])


# ---------------------------------------------------------------------------------------------- unroll loops over literal tuples
class Unroller:
    """`for k in ("a", "b"): body` with a literal tuple / list of constants becomes body[k := "a"]; body[k := "b"]; and
    `getattr(x, "name")` with a constant identifier becomes `x.name`.  (No break / continue / else, the loop variable
    is not rebound in the body and not used after the loop.)"""

    def __init__(self):
        self.count = 0

    def unroll_function(self, fnode):
        self._block(fnode.body, fnode)
        for n in ast.walk(fnode):
            if isinstance(n, ast.Call) and isinstance(n.func, ast.Name) and n.func.id == "getattr" and len(n.args) == 2 and not n.keywords \
                    and isinstance(n.args[1], ast.Constant) and isinstance(n.args[1].value, str) and n.args[1].value.isidentifier():
                n.__class__ = ast.Attribute
                n.value, n.attr, n.ctx = n.args[0], n.args[1].value, ast.Load()
                n._fields = ast.Attribute._fields
                for f_ in ("func", "args", "keywords"):
                    try:
                        delattr(n, f_)
                    except AttributeError:
                        pass

    def _block(self, body, fnode):
        i = 0
        while i < len(body):
            st = body[i]
            for fld in ("body", "orelse", "finalbody"):
                blk = getattr(st, fld, None)
                if isinstance(blk, list) and blk and isinstance(blk[0], ast.stmt) and not isinstance(st, (ast.FunctionDef, ast.AsyncFunctionDef, ast.ClassDef)):
                    self._block(blk, fnode)
            for h in getattr(st, "handlers", []) or []:
                self._block(h.body, fnode)
            if isinstance(st, ast.For) and isinstance(st.target, ast.Name) and not st.orelse and isinstance(st.iter, (ast.Tuple, ast.List)) \
                    and 1 <= len(st.iter.elts) <= 6 and all(isinstance(e, ast.Constant) for e in st.iter.elts):
                v = st.target.id
                inner = [n for s_ in st.body for n in ast.walk(s_)]
                if any(isinstance(n, (ast.Break, ast.Continue)) for n in inner) or any(isinstance(n, ast.Name) and n.id == v and isinstance(n.ctx, (ast.Store, ast.Del)) for n in inner):
                    i += 1
                    continue
                after = [n for s_ in body[i + 1:] for n in ast.walk(s_) if isinstance(n, ast.Name) and n.id == v and isinstance(n.ctx, ast.Load)]
                if after:
                    i += 1
                    continue
                new = []
                for e in st.iter.elts:
                    class S(ast.NodeTransformer):
                        def visit_Name(self, node, _e=e):
                            if node.id == v and isinstance(node.ctx, ast.Load):
                                return ast.copy_location(ast.Constant(value=_e.value), node)
                            return node
                    for s_ in st.body:
                        c = S().visit(copy.deepcopy(s_))
                        for x in ast.walk(c):
                            if isinstance(x, ast.stmt):
                                x._orig = getattr(s_, "_orig", getattr(s_, "lineno", None))
                        new.append(c)
                body[i:i + 1] = new
                self.count += 1
                i += len(new)
                continue
            i += 1


def propagate_renames(fnode):
    """`a = x` / `a, b = (x, y)` between plain local names, at the top level of the function, where `a` is stored nowhere
    else and `x` is not stored after that statement: every later `a` is `x`.  The statement is dropped and the uses are
    renamed (what inlining a helper that returns its locals leaves behind).  Returns the number of names removed."""
    stores = {}
    for n in ast.walk(fnode):
        if isinstance(n, ast.Name) and isinstance(n.ctx, (ast.Store, ast.Del)):
            stores.setdefault(n.id, []).append(n)
        elif isinstance(n, ast.arg):
            stores.setdefault(n.arg, []).append(n)
    # names captured by nested functions are left alone
    captured = set()
    for n in ast.walk(fnode):
        if isinstance(n, (ast.FunctionDef, ast.AsyncFunctionDef, ast.Lambda)) and n is not fnode:
            captured |= {x.id for x in ast.walk(n) if isinstance(x, ast.Name)}
    removed = 0
    i = 0
    body = fnode.body
    while i < len(body):
        st = body[i]
        pairs = None
        if isinstance(st, ast.Assign) and len(st.targets) == 1:
            t, v = st.targets[0], st.value
            if isinstance(t, ast.Name) and isinstance(v, ast.Name):
                pairs = [(t, v)]
            elif isinstance(t, (ast.Tuple, ast.List)) and isinstance(v, (ast.Tuple, ast.List)) and len(t.elts) == len(v.elts) \
                    and all(isinstance(x, ast.Name) for x in t.elts + v.elts):
                pairs = list(zip(t.elts, v.elts))
        if pairs:
            tn = [a.id for a, _ in pairs]
            ok = len(set(tn)) == len(tn) and not (set(tn) & {b.id for _, b in pairs})
            for a, b in pairs:
                if len(stores.get(a.id, [])) != 1 or a.id in captured or b.id in captured or b.id not in stores:
                    ok = False
                    break
            if ok:
                later_b = [x for a, b in pairs for rest in body[i + 1:] for x in ast.walk(rest)
                           if isinstance(x, ast.Name) and x.id == b.id and isinstance(x.ctx, (ast.Store, ast.Del))]
                if not later_b:
                    ren = {a.id: b.id for a, b in pairs}
                    for rest in body[i + 1:]:
                        for x in ast.walk(rest):
                            if isinstance(x, ast.Name) and x.id in ren:
                                x.id = ren[x.id]
                    del body[i]
                    removed += len(pairs)
                    continue
        i += 1
    return removed


class Sroa:
    """Scalar replacement of private records.  A local that only ever holds an instance of a NamedTuple class of the
    repository - built by the constructor or by a method of the class whose body is `return K(...)` - is replaced by one
    local per field:

        hits = _Hits(tri=a, ray=b)          hits__tri, hits__ray = (a, b)
        d = f(hits.ray)                ->   d = f(hits__ray)
        hits = hits.take(mask)              hits__tri, hits__ray = (hits__tri[mask], hits__ray[mask])
        return tuple(hits)                  return (hits__tri, hits__ray)

    Any other use of the local gets the record rebuilt from the fields (`K(tri=hits__tri, ray=hits__ray)`), which is the
    same value.  The rewrite keeps behaviour (constructor arguments are evaluated in the order written; a method is
    expanded only when its arguments are names, constants or attribute reads)."""

    def __init__(self, ix):
        self.ix = ix
        self.count = 0

    def _ctor(self, module, call):
        """(ClassInfo, {field: expr} in call order) for `K(...)`"""
        if not isinstance(call, ast.Call) or any(isinstance(a, ast.Starred) for a in call.args) or any(k.arg is None for k in call.keywords):
            return None
        rc = self.ix.record_class(module, call.func) if isinstance(call.func, (ast.Name, ast.Attribute)) else None
        if rc is None:
            return None
        cls, fields = rc
        names = [n for n, _ in fields]
        if len(call.args) > len(names):
            return None
        bound = {}
        for n, a in zip(names, call.args):
            bound[n] = a
        for k in call.keywords:
            if k.arg not in names or k.arg in bound:
                return None
            bound[k.arg] = k.value
        for n, d in fields:
            if n not in bound:
                if d is None:
                    return None
                bound[n] = copy.deepcopy(d)
        return cls, bound

    def _method(self, cls, name):
        """(params, {field: expr over self.<field> and params}) for a method whose body is `return K(...)`"""
        m = cls.methods.get(name)
        if m is None or m.kind != "method" or m.node.decorator_list:
            return None
        a = m.node.args
        if a.vararg or a.kwarg or a.kwonlyargs or a.defaults:
            return None
        body = _body_wo_doc(m.node)
        if len(body) != 1 or not isinstance(body[0], ast.Return):
            return None
        c = self._ctor(m.module, body[0].value)
        if c is None or c[0] is not cls:
            return None
        return [x.arg for x in a.posonlyargs + a.args], c[1]

    def sroa_function(self, fi):
        fnode, module = fi.node, fi.module
        params = set(_params(fnode))
        captured = set()
        for n in ast.walk(fnode):
            if isinstance(n, (ast.FunctionDef, ast.AsyncFunctionDef, ast.Lambda, ast.ClassDef)) and n is not fnode:
                captured |= {x.id for x in ast.walk(n) if isinstance(x, ast.Name)}
        parents = {}
        for n in ast.walk(fnode):
            for c in ast.iter_child_nodes(n):
                parents[id(c)] = n
        # candidate locals: every store is `h = K(...)` or `h = <candidate>.method(...)`
        stores = {}
        for n in ast.walk(fnode):
            if isinstance(n, ast.Name) and isinstance(n.ctx, (ast.Store, ast.Del)):
                stores.setdefault(n.id, []).append(n)
        cand = {}
        for name, sts in stores.items():
            if name in params or name in captured:
                continue
            cls = None
            ok = True
            for s_ in sts:
                par = parents.get(id(s_))
                if not (isinstance(par, ast.Assign) and len(par.targets) == 1 and par.targets[0] is s_ and isinstance(par.value, ast.Call)):
                    ok = False
                    break
                c = self._ctor(module, par.value)
                if c is not None:
                    if cls is not None and cls is not c[0]:
                        ok = False
                        break
                    cls = c[0]
            if ok and cls is not None:
                cand[name] = cls
        # method-produced stores must come from a candidate of the same class through an expandable method
        changed = True
        while changed:
            changed = False
            for name, cls in list(cand.items()):
                for s_ in stores[name]:
                    v = parents[id(s_)].value
                    if self._ctor(module, v) is not None:
                        continue
                    f = v.func
                    good = isinstance(f, ast.Attribute) and isinstance(f.value, ast.Name) and cand.get(f.value.id) is cls \
                        and self._method(cls, f.attr) is not None and not v.keywords \
                        and all(isinstance(a, (ast.Name, ast.Constant, ast.Attribute)) for a in v.args) \
                        and len(v.args) == len(self._method(cls, f.attr)[0]) - 1
                    if not good:
                        del cand[name]
                        changed = True
                        break
        if not cand:
            return 0
        fields = {name: [n for n, _ in self.ix.record_class(module, cls.dotted)[1]] for name, cls in cand.items()}

        def fld(h, f_):
            return f"{h}__{f_}"

        sroa = self

        class R(ast.NodeTransformer):
            def visit_FunctionDef(self, node):
                if node is fnode:
                    self.generic_visit(node)
                return node

            visit_AsyncFunctionDef = visit_Lambda = visit_ClassDef = lambda self, node: node

            def visit_Assign(self, node):
                if len(node.targets) == 1 and isinstance(node.targets[0], ast.Name) and node.targets[0].id in cand:
                    h = node.targets[0].id
                    cls = cand[h]
                    c = sroa._ctor(module, node.value)
                    if c is not None:
                        bound = {k: self.visit(v) for k, v in c[1].items()}
                    else:
                        src = node.value.func.value.id
                        ps, exprs = sroa._method(cls, node.value.func.attr)
                        sub = dict(zip(ps[1:], [self.visit(a) for a in node.value.args]))
                        selfname = ps[0]

                        class S(ast.NodeTransformer):
                            def visit_Attribute(self, n):
                                if isinstance(n.value, ast.Name) and n.value.id == selfname and n.attr in fields[src]:
                                    return ast.Name(id=fld(src, n.attr), ctx=ast.Load())
                                return self.generic_visit(n)

                            def visit_Name(self, n):
                                if n.id in sub and isinstance(n.ctx, ast.Load):
                                    return copy.deepcopy(sub[n.id])
                                return n

                        bound = {k: S().visit(copy.deepcopy(v)) for k, v in exprs.items()}
                    order = list(bound)
                    new = ast.Assign(targets=[ast.Tuple(elts=[ast.Name(id=fld(h, k), ctx=ast.Store()) for k in order], ctx=ast.Store())],
                                     value=ast.Tuple(elts=[bound[k] for k in order], ctx=ast.Load()))
                    return ast.copy_location(new, node)
                return self.generic_visit(node)

            def visit_Attribute(self, node):
                if isinstance(node.value, ast.Name) and node.value.id in cand and isinstance(node.ctx, ast.Load) and node.attr in fields[node.value.id]:
                    return ast.copy_location(ast.Name(id=fld(node.value.id, node.attr), ctx=ast.Load()), node)
                return self.generic_visit(node)

            def visit_Subscript(self, node):
                if isinstance(node.value, ast.Name) and node.value.id in cand and isinstance(node.slice, ast.Constant) and isinstance(node.slice.value, int) \
                        and isinstance(node.ctx, ast.Load) and -len(fields[node.value.id]) <= node.slice.value < len(fields[node.value.id]):
                    return ast.copy_location(ast.Name(id=fld(node.value.id, fields[node.value.id][node.slice.value]), ctx=ast.Load()), node)
                return self.generic_visit(node)

            def _expand_method(self, node):
                """`h.method(args)` in expression position -> `K(field=<expr over h's fields>, ...)`"""
                f = node.func
                if not (isinstance(f, ast.Attribute) and isinstance(f.value, ast.Name) and f.value.id in cand and not node.keywords
                        and all(isinstance(a, (ast.Name, ast.Constant, ast.Attribute)) for a in node.args)):
                    return None
                src, cls = f.value.id, cand[f.value.id]
                mm = sroa._method(cls, f.attr)
                if mm is None or len(node.args) != len(mm[0]) - 1:
                    return None
                ps, exprs = mm
                sub = dict(zip(ps[1:], [self.visit(a) for a in node.args]))
                selfname = ps[0]

                class S(ast.NodeTransformer):
                    def visit_Attribute(self, n):
                        if isinstance(n.value, ast.Name) and n.value.id == selfname and n.attr in fields[src]:
                            return ast.Name(id=fld(src, n.attr), ctx=ast.Load())
                        return self.generic_visit(n)

                    def visit_Name(self, n):
                        if n.id in sub and isinstance(n.ctx, ast.Load):
                            return copy.deepcopy(sub[n.id])
                        return n

                return ast.Call(func=ast.Name(id=cls.name, ctx=ast.Load()), args=[],
                                keywords=[ast.keyword(arg=k, value=S().visit(copy.deepcopy(v))) for k, v in exprs.items()])

            def visit_Call(self, node):
                ex = self._expand_method(node)
                if ex is not None:
                    return ast.copy_location(ex, node)
                if isinstance(node.func, ast.Name) and node.func.id in ("tuple", "list") and len(node.args) == 1 and not node.keywords:
                    inner = node.args[0]
                    elts = None
                    if isinstance(inner, ast.Name) and inner.id in cand:
                        elts = [ast.Name(id=fld(inner.id, k), ctx=ast.Load()) for k in fields[inner.id]]
                    elif isinstance(inner, ast.Call):
                        ex = self._expand_method(inner)
                        c = sroa._ctor(module, ex if ex is not None else inner)
                        if c is not None and (ex is not None or True):
                            names_ = [n for n, _ in sroa.ix.record_class(module, c[0].dotted)[1]]
                            vals = {k: (v if ex is not None else self.visit(v)) for k, v in c[1].items()}
                            elts = [vals[k] for k in names_]
                    if elts is not None:
                        return ast.copy_location(ast.Tuple(elts=elts, ctx=ast.Load()) if node.func.id == "tuple" else ast.List(elts=elts, ctx=ast.Load()), node)
                if isinstance(node.func, ast.Name) and node.func.id == "len" and len(node.args) == 1 and isinstance(node.args[0], ast.Name) and node.args[0].id in cand:
                    return ast.copy_location(ast.Constant(value=len(fields[node.args[0].id])), node)
                return self.generic_visit(node)

            def visit_Name(self, node):
                if node.id in cand and isinstance(node.ctx, ast.Load):
                    cls = cand[node.id]
                    return ast.copy_location(ast.Call(func=ast.Name(id=cls.name, ctx=ast.Load()), args=[],
                                                      keywords=[ast.keyword(arg=k, value=ast.Name(id=fld(node.id, k), ctx=ast.Load())) for k in fields[node.id]]), node)
                return node

        R().visit(fnode)
        ast.fix_missing_locations(fnode)
        self.count += len(cand)
        return len(cand)


class _GiveUp(Exception):
    pass


_PURE_CALLS = {"len", "isinstance", "hasattr", "abs", "all", "any", "min", "max", "bool", "int", "float", "callable", "issubclass"}


class Deflag:
    """Flag elimination by path splitting.  A local that only ever holds the outcome of a test

        ok = A and B            ->      if A and B:
        if ok:                              S1
            S1                              if X:
            if X:                               S3
                ok = False                  else:
        if ok:                                  S2
            S2                                  S3
        S3                              else:
                                            S3

    is removed: each `if ok:` is decided where the flag's value is known (a constant after `ok = False`, the defining
    test otherwise), the statements that follow are copied into both arms of a split.  Conditions: every store of the
    flag is `flag = <constant bool>` or `flag = <pure test>` whose names are not assigned after it; every load is the
    whole test of an `if flag:` / `if not flag:`; no occurrence inside a loop, try, with or nested function.  The rewrite
    keeps behaviour (the defining test is pure and is evaluated at most once, where the flag is first consulted)."""

    MAX_SPLITS = 12

    def __init__(self):
        self.count = 0

    # -- candidates
    def _flags(self, fnode):
        params = set(_params(fnode))
        stores, loads, bad = {}, {}, set()
        if_tests = {}
        parents = {}
        for n in ast.walk(fnode):
            for c in ast.iter_child_nodes(n):
                parents[id(c)] = n
        for n in ast.walk(fnode):
            if isinstance(n, ast.If):
                t = n.test
                if isinstance(t, ast.Name):
                    if_tests[id(t)] = True
                elif isinstance(t, ast.UnaryOp) and isinstance(t.op, ast.Not) and isinstance(t.operand, ast.Name):
                    if_tests[id(t.operand)] = True
        for n in ast.walk(fnode):
            if isinstance(n, (ast.Global, ast.Nonlocal)):
                bad.update(n.names)
            if not isinstance(n, ast.Name):
                continue
            if isinstance(n.ctx, ast.Load):
                loads.setdefault(n.id, []).append(n)
                if id(n) not in if_tests:
                    bad.add(n.id)
            else:
                par = parents.get(id(n))
                if isinstance(n.ctx, ast.Store) and isinstance(par, ast.Assign) and len(par.targets) == 1 and par.targets[0] is n:
                    stores.setdefault(n.id, []).append(par)
                else:
                    bad.add(n.id)
            # anything inside a loop / try / with / nested def is out of reach of the rewrite
            q = parents.get(id(n))
            while q is not None and q is not fnode:
                if isinstance(q, (ast.For, ast.While, ast.Try, ast.With, ast.AsyncFor, ast.AsyncWith, ast.FunctionDef, ast.AsyncFunctionDef,
                                  ast.Lambda, ast.ClassDef, ast.ListComp, ast.SetComp, ast.DictComp, ast.GeneratorExp)):
                    bad.add(n.id)
                    break
                q = parents.get(id(q))
        out = []
        all_stores = {}
        for n in ast.walk(fnode):
            if isinstance(n, ast.Name) and isinstance(n.ctx, (ast.Store, ast.Del)):
                all_stores.setdefault(n.id, []).append(n.lineno)
            elif isinstance(n, ast.arg):
                all_stores.setdefault(n.arg, []).append(0)
        for b, sts in stores.items():
            if b in bad or b in params or b not in loads:
                continue
            defs = [st for st in sts if not (isinstance(st.value, ast.Constant) and isinstance(st.value.value, bool))]
            if len(defs) != 1 or len(sts) < 2:
                # (a flag stored once is a plain single-use local: the fold pass deals with it)
                if not (len(defs) == 1 and len(loads[b]) >= 2):
                    continue
            d = defs[0]
            if not self._pure(d.value):
                continue
            # names of the defining test are not assigned after it
            names = {x.id for x in ast.walk(d.value) if isinstance(x, ast.Name)}
            if any(ln > d.lineno for nm in names for ln in all_stores.get(nm, [])):
                continue
            out.append(b)
        return out

    def _pure(self, e):
        for x in ast.walk(e):
            if isinstance(x, ast.Call):
                f = ast.unparse(x.func)
                if not (f in _PURE_CALLS or f.startswith(("np.", "numpy."))):
                    return False
            elif isinstance(x, (ast.Await, ast.Yield, ast.YieldFrom, ast.NamedExpr, ast.Lambda)):
                return False
        return True

    # -- rewrite
    def _rewrite(self, L, b, state, budget):
        out = []
        for i, st in enumerate(L):
            if not any(isinstance(x, ast.Name) and x.id == b for x in ast.walk(st)):
                out.append(st)
                if isinstance(st, (ast.Return, ast.Raise)):
                    return out
                continue
            rest = L[i + 1:]
            if isinstance(st, ast.Assign) and len(st.targets) == 1 and isinstance(st.targets[0], ast.Name) and st.targets[0].id == b:
                v = st.value
                state = ("const", v.value) if isinstance(v, ast.Constant) and isinstance(v.value, bool) else ("expr", v)
                continue
            if not isinstance(st, ast.If):
                raise _GiveUp
            t = st.test
            pol = True if (isinstance(t, ast.Name) and t.id == b) else \
                (False if (isinstance(t, ast.UnaryOp) and isinstance(t.op, ast.Not) and isinstance(t.operand, ast.Name) and t.operand.id == b) else None)
            if pol is None:
                if any(isinstance(x, ast.Name) and x.id == b for x in ast.walk(t)):
                    raise _GiveUp
                budget[0] -= 1
                if budget[0] < 0:
                    raise _GiveUp
                bt = self._rewrite(list(st.body) + copy.deepcopy(rest), b, state, budget)
                bf = self._rewrite(list(st.orelse) + copy.deepcopy(rest), b, state, budget)
                new = ast.If(test=t, body=bt or [ast.copy_location(ast.Pass(), st)], orelse=bf)
                return out + [ast.copy_location(new, st)]
            if state is None:
                raise _GiveUp
            if state[0] == "const":
                taken = st.body if state[1] == pol else st.orelse
                return out + self._rewrite(list(taken) + rest, b, state, budget)
            budget[0] -= 1
            if budget[0] < 0:
                raise _GiveUp
            on_true, on_false = (st.body, st.orelse) if pol else (st.orelse, st.body)
            bt = self._rewrite(list(on_true) + copy.deepcopy(rest), b, ("const", True), budget)
            bf = self._rewrite(list(on_false) + copy.deepcopy(rest), b, ("const", False), budget)
            new = ast.If(test=copy.deepcopy(state[1]), body=bt or [ast.copy_location(ast.Pass(), st)], orelse=bf)
            return out + [ast.copy_location(new, st)]
        return out

    def deflag_function(self, fnode):
        for b in self._flags(fnode):
            try:
                new = self._rewrite(list(copy.deepcopy(fnode.body)), b, None, [self.MAX_SPLITS])
            except _GiveUp:
                continue
            if any(isinstance(x, ast.Name) and x.id == b for st in new for x in ast.walk(st)):
                continue
            for st in new:
                for x in ast.walk(st):
                    if isinstance(x, ast.stmt) and not hasattr(x, "_orig"):
                        x._orig = getattr(x, "lineno", None)
            fnode.body = new or [ast.Pass()]
            self.count += 1


# ---------------------------------------------------------------------------------------------- views
VIEWS = (("inline",), ("fold",), ("unroll",), ("deflag",), ("sroa",), ("inline", "sroa", "unroll", "deflag", "fold"))


def _functions(ix, m):
    for fi in ix.all_functions:
        if fi.module is m:
            yield fi


def build_view(repo, passes):
    """scratch copy of the package with the passes applied; returns (dir, stats).  The caller removes dir."""
    ix = Index(repo)
    out = tempfile.mkdtemp(prefix="verif-view-")
    shutil.copytree(os.path.join(repo, PKG), os.path.join(out, PKG), ignore=shutil.ignore_patterns("__pycache__", "*.pyc"))
    inl, fol, unr, dfl, sro = Inliner(ix), Folder(), Unroller(), Deflag(), Sroa(ix)
    linemap = {}
    changed = 0
    dirty = set()
    for m in ix.modules.values():
        before = inl.count + fol.count + unr.count + dfl.count + sro.count
        for n in ast.walk(m.tree):
            if isinstance(n, ast.stmt):
                n._orig = n.lineno
        for fi in list(_functions(ix, m)):
            if "inline" in passes:
                names = _all_names(fi.node)
                c0 = inl.count
                fi.node.body = inl.expand_block(fi, names, fi.node.body)
                if inl.count != c0:
                    propagate_renames(fi.node)
        if "sroa" in passes:
            for fi in list(_functions(ix, m)):
                try:
                    sro.sroa_function(fi)
                except Exception:  # noqa - a rewrite that fails leaves the function as written
                    pass
        if "unroll" in passes:
            for n in ast.walk(m.tree):
                if isinstance(n, (ast.FunctionDef, ast.AsyncFunctionDef)):
                    unr.unroll_function(n)
        if "deflag" in passes:
            for n in ast.walk(m.tree):
                if isinstance(n, (ast.FunctionDef, ast.AsyncFunctionDef)):
                    dfl.deflag_function(n)
        if "fold" in passes:
            for n in ast.walk(m.tree):
                if isinstance(n, (ast.FunctionDef, ast.AsyncFunctionDef)):
                    fol.fold_function(n)
        if inl.count + fol.count + unr.count + dfl.count + sro.count != before:
            dirty.add(m.name)
    # a private helper whose every call was inlined and that nothing else mentions any more: its statements now live in its
    # callers; the definition stays (rules may look it up by name) but findings located in it are duplicates (sa/cli.py)
    fully = []
    if inl.inlined:
        mentions = {}
        for m in ix.modules.values():
            for n in ast.walk(m.tree):
                k = n.id if isinstance(n, ast.Name) else (n.attr if isinstance(n, ast.Attribute) else (n.value if isinstance(n, ast.Constant) and isinstance(n.value, str) else None))
                if k is not None and len(k) < 80:
                    mentions[k] = mentions.get(k, 0) + 1
        for t in inl.inlined:
            if mentions.get(t.name, 0) or any(t.name in k for k in mentions if k != t.name and "." in k):
                continue
            fully.append(t.qualname)
    for m in ix.modules.values():
        if m.name not in dirty:
            continue
        ast.fix_missing_locations(m.tree)
        src = ast.unparse(m.tree) + "\n"
        try:
            new = ast.parse(src)
        except SyntaxError as e:  # a rewrite produced something unparseable: leave this module as it was
            inl.sites.append(f"{m.rel}: rewrite not parseable ({e}); module left as written")
            continue
        a = [n for n in ast.walk(m.tree) if isinstance(n, ast.stmt)]
        b = [n for n in ast.walk(new) if isinstance(n, ast.stmt)]
        if len(a) == len(b) and all(type(x) is type(y) for x, y in zip(a, b)):
            linemap[m.rel] = {str(y.lineno): getattr(x, "_orig", None) for x, y in zip(a, b) if getattr(x, "_orig", None)}
        with open(os.path.join(out, m.rel), "w") as f:
            f.write(src)
        changed += 1
    with open(os.path.join(out, ".linemap.json"), "w") as f:
        json.dump(linemap, f)
    return out, {"passes": list(passes), "modules_rewritten": changed, "helper_calls_inlined": inl.count, "locals_folded": fol.count, "loops_unrolled": unr.count, "flags_eliminated": dfl.count, "records_replaced": sro.count,
                 "fully_inlined": sorted(fully), "inlined_into": {k: sorted(v) for k, v in inl.into.items()}, "sites": inl.sites[:40]}


def remap_where(view_dir, where):
    """'file:line qual' of a view -> the line of the source as written (call site for inlined statements)"""
    try:
        with open(os.path.join(view_dir, ".linemap.json")) as f:
            lm = json.load(f)
        loc, _, rest = where.partition(" ")
        path, line = loc.rsplit(":", 1)
        o = lm.get(path, {}).get(line)
        if o:
            return f"{path}:{o} {rest}".rstrip()
    except Exception:
        pass
    return where


if __name__ == "__main__":
    import sys

    d, st = build_view(sys.argv[1] if len(sys.argv) > 1 else "/repo", tuple(sys.argv[2].split(",")) if len(sys.argv) > 2 else ("inline",))
    print(d)
    print(json.dumps(st, indent=1))
