"""is_rigid: the linear block R is accepted only when R R^T (or R^T R) equals the IDENTITY - not a multiple of it.

Primitive.apply_transform, Scene / camera code and the transform shortcuts rely on `is_rigid(M)` to mean "no scale, no
shear left in M": a test that first divides the gram matrix by its trace (or normalises rows) accepts similarities, and
a primitive then keeps a scale inside its stored transform that its analytic volume / area never see.

Static: is_rigid is interpreted by E3 on a symbolic 4x4 matrix (undecidable `if`s skipped), the array whose largest
absolute entry (or allclose difference) decides the verdict is evaluated and compared, entry by entry as polynomials,
with R R^T - I and R^T R - I."""
from __future__ import annotations

import ast

from .report import key_of


def rigid_rule(run, ix, rule, prop):
    import numpy as np
    import sympy as sp
    from .alg import Frame, Interp, Unsupported, arr, symbols_array, tolerant_block, _Return

    run.rule(rule, "is_rigid accepts a matrix only when the gram matrix of its linear block equals the identity itself (R R^T - I or R^T R - I is what is "
                   "compared with the tolerance): dividing out a scale first would let similarities through to callers that rely on `no scale left`")
    try:
        f = ix.func("trimesh.transformations:is_rigid")
    except Exception:
        run.instance(rule, "trimesh/transformations.py", "is_rigid not found - NOT decided", True, nontrivial=False)
        run.assume("is_rigid: anchor not found")
        return
    M = symbols_array("m", (4, 4))
    it = Interp(ix)
    it.trace = {}
    par = f.params[0] if f.params else "matrix"
    fr = Frame(it, f, {par: M, **{p: sp.Symbol("eps", positive=True) for p in f.params[1:]}})
    skipped = []
    try:
        tolerant_block(fr, f.node.body, skipped)
    except _Return:
        pass
    except Unsupported as e:
        skipped.append(str(e))
    R = M[:3, :3]
    I3 = np.array(sp.eye(3).tolist(), dtype=object)
    refs = [np.dot(R, R.T) - I3, np.dot(R.T, R) - I3]
    cands = []
    for ret in [n for n in ast.walk(f.node) if isinstance(n, ast.Return) and n.value is not None]:
        for c in ast.walk(ret.value):
            if not isinstance(c, ast.Call):
                continue
            fn = ast.unparse(c.func)
            if fn in ("np.abs", "numpy.abs", "abs", "np.fabs", "np.absolute") and len(c.args) == 1:
                cands.append((ret, c.args[0], None))
            elif fn.split(".")[-1] in ("allclose", "isclose") and len(c.args) >= 2:
                cands.append((ret, c.args[0], c.args[1]))
    # also a compare held in a local that the return reads
    for st in [n for n in ast.walk(f.node) if isinstance(n, ast.Assign)]:
        for c in ast.walk(st.value):
            if isinstance(c, ast.Call) and ast.unparse(c.func) in ("np.abs", "numpy.abs", "abs") and len(c.args) == 1 and any(isinstance(x, ast.Compare) for x in ast.walk(st.value)):
                cands.append((st, c.args[0], None))
    decided = 0
    for st, a, b in cands:
        try:
            va = arr(fr.ev(a))
            vb = arr(fr.ev(b)) if b is not None else None
        except Exception:
            continue
        if not isinstance(va, np.ndarray) or va.shape != (3, 3):
            continue
        X = va - vb if vb is not None else va
        if not isinstance(X, np.ndarray) or X.shape != (3, 3):
            continue

        def same(A, B):
            for sgn in (1, -1):
                try:
                    if all(sp.expand(sp.numer(sp.together(sp.sympify(A[i, j]) - sgn * B[i, j]))) == 0 for i in range(3) for j in range(3)):
                        return True
                except Exception:
                    return False
            return False

        ok = any(same(X, r) for r in refs)
        decided += 1
        where = f"{f.module.rel}:{st.lineno} {f.qualname}"
        run.obligation(rule, where, f"verdict array `{ast.unparse(a)[:50]}`{' - `' + ast.unparse(b)[:30] + '`' if b is not None else ''} == R R^T - I (or R^T R - I) as polynomials", ok)
        if not ok:
            ex = sp.simplify(sp.sympify(X[0, 0]))
            run.violation(rule, where, f"is_rigid compares `{ast.unparse(a)[:60]}` with its tolerance, whose (0,0) entry is `{str(ex)[:90]}`, not (R R^T - I)[0,0]: matrices whose "
                                       f"gram matrix is a multiple of the identity (uniform scale) are no longer refused, and Primitive.apply_transform keeps that scale inside "
                                       f"the stored transform while volume / area are computed from the unscaled parameters", key=key_of(f"{prop}-{rule}", "gram"))
    if decided == 0:
        run.instance(rule, f.where, f"is_rigid: no 3x3 verdict array of a recognised form (abs(X).max() / allclose(A, B)) - NOT decided ({skipped[:2]})", True, nontrivial=False)
        run.assume("is_rigid: verdict array not recognised")
