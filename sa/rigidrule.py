"""is_rigid: the linear block R is accepted only when R R^T (or R^T R) equals the IDENTITY - not a multiple of it.

Primitive.apply_transform, Scene / camera code and the transform shortcuts rely on `is_rigid(M)` to mean "no scale, no
shear left in M": a test that first divides the gram matrix by its trace (or normalises rows) accepts similarities, and
a primitive then keeps a scale inside its stored transform that its analytic volume / area never see.

Static: is_rigid is interpreted by E3 on a symbolic 4x4 matrix (undecidable `if`s skipped), the array whose largest
absolute entry (or allclose difference) decides the verdict is evaluated and compared, entry by entry as polynomials,
with R R^T - I and R^T R - I."""
from __future__ import annotations

import ast

from .report import key_of


def rigid_rule(run, ix, rule, prop):
    import numpy as np
    import sympy as sp
    from .alg import Frame, Interp, Unsupported, arr, symbols_array, tolerant_block, _Return

    run.rule(rule, "is_rigid accepts a matrix only when the gram matrix of its linear block equals the identity itself (R R^T - I or R^T R - I is what is "
                   "compared with the tolerance): dividing out a scale first would let similarities through to callers that rely on `no scale left`")
    try:
        f = ix.func("trimesh.transformations:is_rigid")
    except Exception:
        run.instance(rule, "trimesh/transformations.py", "is_rigid not found - NOT decided", True, nontrivial=False)
        run.assume("is_rigid: anchor not found")
        return
    M = symbols_array("m", (4, 4))
    it = Interp(ix)
    it.trace = {}
    par = f.params[0] if f.params else "matrix"
    fr = Frame(it, f, {par: M, **{p: sp.Symbol("eps", positive=True) for p in f.params[1:]}})
    skipped = []
    try:
        tolerant_block(fr, f.node.body, skipped)
    except _Return:
        pass
    except Unsupported as e:
        skipped.append(str(e))
    R = M[:3, :3]
    I3 = np.array(sp.eye(3).tolist(), dtype=object)
    refs = [np.dot(R, R.T) - I3, np.dot(R.T, R) - I3]
    cands = []
    for ret in [n for n in ast.walk(f.node) if isinstance(n, ast.Return) and n.value is not None]:
        for c in ast.walk(ret.value):
            if not isinstance(c, ast.Call):
                continue
            fn = ast.unparse(c.func)
            if fn in ("np.abs", "numpy.abs", "abs", "np.fabs", "np.absolute") and len(c.args) == 1:
                cands.append((ret, c.args[0], None))
            elif fn.split(".")[-1] in ("allclose", "isclose") and len(c.args) >= 2:
                cands.append((ret, c.args[0], c.args[1]))
    # also a compare held in a local that the return reads
    for st in [n for n in ast.walk(f.node) if isinstance(n, ast.Assign)]:
        for c in ast.walk(st.value):
            if isinstance(c, ast.Call) and ast.unparse(c.func) in ("np.abs", "numpy.abs", "abs") and len(c.args) == 1 and any(isinstance(x, ast.Compare) for x in ast.walk(st.value)):
                cands.append((st, c.args[0], None))
    decided = 0
    for st, a, b in cands:
        try:
            va = arr(fr.ev(a))
            vb = arr(fr.ev(b)) if b is not None else None
        except Exception:
            continue
        if not isinstance(va, np.ndarray) or va.shape != (3, 3):
            continue
        X = va - vb if vb is not None else va
        if not isinstance(X, np.ndarray) or X.shape != (3, 3):
            continue

        def same(A, B):
            for sgn in (1, -1):
                try:
                    if all(sp.expand(sp.numer(sp.together(sp.sympify(A[i, j]) - sgn * B[i, j]))) == 0 for i in range(3) for j in range(3)):
                        return True
                except Exception:
                    return False
            return False

        ok = any(same(X, r) for r in refs)
        decided += 1
        where = f"{f.module.rel}:{st.lineno} {f.qualname}"
        run.obligation(rule, where, f"verdict array `{ast.unparse(a)[:50]}`{' - `' + ast.unparse(b)[:30] + '`' if b is not None else ''} == R R^T - I (or R^T R - I) as polynomials", ok)
        if not ok:
            ex = sp.simplify(sp.sympify(X[0, 0]))
            run.violation(rule, where, f"is_rigid compares `{ast.unparse(a)[:60]}` with its tolerance, whose (0,0) entry is `{str(ex)[:90]}`, not (R R^T - I)[0,0]: matrices whose "
                                       f"gram matrix is a multiple of the identity (uniform scale) are no longer refused, and Primitive.apply_transform keeps that scale inside "
                                       f"the stored transform while volume / area are computed from the unscaled parameters", key=key_of(f"{prop}-{rule}", "gram"))
    if decided == 0:
        # the verdict may be computed in a helper: follow the calls and look at what reaches np.abs
        it2 = Interp(ix)
        seen = []

        def _abs(it_, args, kw):
            a_ = arr(args[0])
            if isinstance(a_, np.ndarray):
                seen.append(a_.copy())
                return symbols_array(f"abs{len(seen)}_", a_.shape)
            return sp.Abs(a_)

        for nm_ in ("numpy.abs", "numpy.absolute", "numpy.fabs"):
            it2.ext_stubs[nm_] = _abs
        fr2 = Frame(it2, f, {par: M, **{p: sp.Symbol("eps", positive=True) for p in f.params[1:]}})
        try:
            tolerant_block(fr2, f.node.body, [])
        except (_Return, Unsupported):
            pass
        for X in [a_ for a_ in seen if a_.shape == (3, 3)]:
            ok = False
            for r_ in refs:
                for sgn in (1, -1):
                    try:
                        if all(sp.expand(sp.numer(sp.together(sp.sympify(X[i, j]) - sgn * r_[i, j]))) == 0 for i in range(3) for j in range(3)):
                            ok = True
                    except Exception:
                        pass
            decided += 1
            run.obligation(rule, f.where, "the 3x3 array that reaches np.abs (through a helper) == R R^T - I (or R^T R - I) as polynomials", ok)
            if not ok:
                run.violation(rule, f.where, f"is_rigid compares a 3x3 array whose (0,0) entry is `{str(sp.simplify(sp.sympify(X[0, 0])))[:90]}` with its tolerance, not R R^T - I: matrices "
                                             f"whose gram matrix is a multiple of the identity (uniform scale) are no longer refused", key=key_of(f"{prop}-{rule}", "gram"))
    if decided == 0:
        run.instance(rule, f.where, f"is_rigid: no 3x3 verdict array of a recognised form (abs(X).max() / allclose(A, B)) - NOT decided ({skipped[:2]})", True, nontrivial=False)
        run.assume("is_rigid: verdict array not recognised")


def fix_rigid_rule(run, ix, rule, prop):
    """fix_rigid is documented for planar (3, 3) and spatial (4, 4) matrices: the deviation that decides whether it repairs is
    measured on the linear block M[:d, :d], d = n - 1 - not on a fixed 3x3 corner, which for a planar matrix contains the
    translation column (the matrix is then never repaired once |t| exceeds the threshold)."""
    import numpy as np
    import sympy as sp
    from .alg import Frame, Interp, Unsupported, arr, symbols_array, tolerant_block, _Return

    run.rule(rule, "fix_rigid measures the deviation from orthonormal on the linear block M[:d, :d] (d = n - 1) for both planar (3, 3) and spatial (4, 4) input: the array "
                   "whose largest absolute entry is compared with the thresholds equals R R^T - I of that block")
    try:
        f = ix.func("trimesh.transformations:fix_rigid")
    except Exception:
        run.instance(rule, "trimesh/transformations.py", "fix_rigid not found - NOT decided", True, nontrivial=False)
        run.assume("fix_rigid: anchor not found")
        return
    for n in (3, 4):
        d = n - 1
        M = symbols_array("m", (n, n))
        it = Interp(ix)
        seen = []

        def _abs(it_, args, kw):
            a = arr(args[0])
            if isinstance(a, np.ndarray):
                seen.append(a.copy())
                return symbols_array(f"abs{len(seen)}_", a.shape)
            return sp.Abs(a)

        it.ext_stubs["numpy.abs"] = _abs
        it.ext_stubs["numpy.absolute"] = _abs
        it.ext_stubs["numpy.fabs"] = _abs
        fr = Frame(it, f, {f.params[0]: M, **{p: sp.Symbol("dev", positive=True) for p in f.params[1:]}})
        skipped = []
        try:
            tolerant_block(fr, f.node.body, skipped)
        except _Return:
            pass
        except Unsupported as e:
            skipped.append(str(e))
        R = M[:d, :d]
        I_ = np.array(sp.eye(d).tolist(), dtype=object)
        refs = [np.dot(R, R.T) - I_, np.dot(R.T, R) - I_]
        sq = [a for a in seen if a.ndim == 2 and a.shape[0] == a.shape[1]]
        where = f.where

        def same(A, B):
            if A.shape != B.shape:
                return False
            for sgn in (1, -1):
                if all(sp.expand(sp.sympify(A[i, j]) - sgn * B[i, j]) == 0 for i in range(A.shape[0]) for j in range(A.shape[1])):
                    return True
            return False

        if not sq:
            run.instance(rule, where, f"fix_rigid on a symbolic ({n}, {n}) matrix: no square array reaches np.abs - NOT decided ({skipped[:2]})", True, nontrivial=False)
            run.assume(f"fix_rigid ({n}x{n}): deviation array not recognised")
            continue
        ok = any(same(a, r) for a in sq for r in refs)
        run.obligation(rule, where, f"({n}, {n}) input: the measured array is R R^T - I of the {d}x{d} linear block (shapes seen: {[a.shape for a in sq]})", ok)
        if not ok:
            shp = sq[0].shape
            run.violation(rule, where, f"for a ({n}, {n}) matrix fix_rigid measures the deviation on a {shp[0]}x{shp[1]} array that is not R R^T - I of the {d}x{d} linear block"
                          + (": for a planar transform the fixed 3x3 corner is the whole matrix, translation column included, so the measured deviation is about |t| and a nearly "
                             "rigid planar matrix with a translation beyond the threshold is returned unrepaired" if n == 3 and shp == (3, 3) else ""),
                          key=key_of(f"{prop}-{rule}", n))
