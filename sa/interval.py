"""E3b - path-splitting interval interpreter for integer array code.

Abstract values:
  python int/float/bool/None   constants
  Iv(lo, hi, dtype)            an integer array (or numpy scalar) whose every element lies in [lo, hi]
  Ext(kind, names)             min / max over the elements of the named arrays
  Shape(name)                  the .shape of an array
  TOP                          anything else

`If` statements split the path; a test that compares an Ext with a constant refines the
named arrays on the true branch (the false branch keeps the unrefined state, a sound
over-approximation).  Every `<<` applied to an Iv is recorded as a shift event together
with whether it can leave the lane's dtype.  Nothing is executed on real data.
"""
from __future__ import annotations

import ast
import math
import operator as op

from .report import AnalysisError

INT64 = (-(2**63), 2**63 - 1)
UINT64 = (0, 2**64 - 1)
RANGES = {"int64": INT64, "uint64": UINT64, "int32": (-(2**31), 2**31 - 1), "int8": (-128, 127),
          "uint8": (0, 255), "uint32": (0, 2**32 - 1), "int16": (-(2**15), 2**15 - 1)}


class _Top:
    def __repr__(self):
        return "TOP"


TOP = _Top()


class Iv:
    def __init__(self, lo, hi, dtype="int64"):
        self.lo, self.hi, self.dtype = lo, hi, dtype

    def __repr__(self):
        return f"[{self.lo}, {self.hi}]:{self.dtype}"


class Ext:
    def __init__(self, kind, names):
        self.kind, self.names = kind, tuple(names)

    def __repr__(self):
        return f"{self.kind}({','.join(self.names)})"


class Shape:
    def __init__(self, name):
        self.name = name


class Event:
    def __init__(self, kind, node, **kw):
        self.kind = kind
        self.node = node
        self.__dict__.update(kw)


def fits(lo, hi, dtype):
    r = RANGES.get(dtype)
    return r is None or (r[0] <= lo and hi <= r[1])


class Path:
    def __init__(self, env, events=None, guards=None, loop=None):
        self.env = env
        self.events = events if events is not None else []
        self.guards = guards if guards is not None else []
        self.loop = loop
        self.returned = None

    def fork(self):
        env = {k: (Iv(v.lo, v.hi, v.dtype) if isinstance(v, Iv) else v) for k, v in self.env.items()}
        return Path(env, list(self.events), list(self.guards), self.loop)


class Interp:
    def __init__(self, cols=None, max_paths=256):
        self.cols = cols  # concrete column count for `X.shape[1]`, or None
        self.max_paths = max_paths
        self.finished = []

    # ---------------------------------------------------------------- expressions
    def ev(self, e, p):
        env = p.env
        if isinstance(e, ast.Constant):
            return e.value
        if isinstance(e, ast.Name):
            return env.get(e.id, TOP)
        if isinstance(e, ast.Tuple):
            return tuple(self.ev(x, p) for x in e.elts)
        if isinstance(e, ast.UnaryOp):
            v = self.ev(e.operand, p)
            if isinstance(e.op, ast.USub):
                if isinstance(v, Iv):
                    return self._chk(Iv(-v.hi, -v.lo, v.dtype), e, p)
                if isinstance(v, (int, float)) and not isinstance(v, bool):
                    return -v
            if isinstance(e.op, ast.Not) and isinstance(v, bool):
                return not v
            return TOP
        if isinstance(e, ast.BinOp):
            return self.binop(e, self.ev(e.left, p), self.ev(e.right, p), p)
        if isinstance(e, ast.BoolOp):
            vals = [self.ev(v, p) for v in e.values]
            if isinstance(e.op, ast.And):
                if any(v is False for v in vals):
                    return False
                return True if all(v is True for v in vals) else TOP
            if any(v is True for v in vals):
                return True
            return False if all(v is False for v in vals) else TOP
        if isinstance(e, ast.Compare) and len(e.ops) == 1:
            a, b = self.ev(e.left, p), self.ev(e.comparators[0], p)
            o = e.ops[0]
            if isinstance(o, (ast.Is, ast.IsNot)):
                if b is None and (a is None or isinstance(a, (int, float, Iv))):
                    r = a is None
                    return r if isinstance(o, ast.Is) else not r
                return TOP
            if _num(a) and _num(b):
                fn = {ast.Eq: op.eq, ast.NotEq: op.ne, ast.Lt: op.lt, ast.LtE: op.le, ast.Gt: op.gt, ast.GtE: op.ge}.get(type(o))
                return fn(a, b) if fn else TOP
            return TOP
        if isinstance(e, ast.Attribute):
            v = self.ev(e.value, p)
            if e.attr == "T" and isinstance(v, Iv):
                return v
            if e.attr == "shape" and isinstance(e.value, ast.Name) and isinstance(v, Iv):
                return Shape(e.value.id)
            return TOP
        if isinstance(e, ast.Subscript):
            v = self.ev(e.value, p)
            if isinstance(v, Shape):
                idx = self.ev(e.slice, p)
                if idx == 1 and self.cols is not None:
                    return self.cols
                return TOP
            if isinstance(v, Iv):
                return Iv(v.lo, v.hi, v.dtype)
            if isinstance(v, tuple):
                idx = self.ev(e.slice, p)
                if isinstance(idx, int) and -len(v) <= idx < len(v):
                    return v[idx]
            return TOP
        if isinstance(e, ast.Call):
            return self.call(e, p)
        return TOP

    def _chk(self, iv, node, p):
        if not fits(iv.lo, iv.hi, iv.dtype):
            p.events.append(Event("overflow", node, text=f"`{ast.unparse(node)}` can reach [{iv.lo}, {iv.hi}], outside {iv.dtype}"))
            r = RANGES[iv.dtype]
            return Iv(r[0], r[1], iv.dtype)
        return iv

    def binop(self, e, a, b, p):
        o = e.op
        if _num(a) and _num(b):
            fn = {ast.Add: op.add, ast.Sub: op.sub, ast.Mult: op.mul, ast.Div: op.truediv, ast.FloorDiv: op.floordiv,
                  ast.Pow: op.pow, ast.LShift: op.lshift, ast.RShift: op.rshift, ast.Mod: op.mod, ast.BitOr: op.or_,
                  ast.BitAnd: op.and_, ast.BitXor: op.xor}.get(type(o))
            try:
                return fn(a, b) if fn else TOP
            except Exception:
                return TOP
        if not (isinstance(a, Iv) or isinstance(b, Iv)):
            return TOP
        if not ((isinstance(a, Iv) or _int(a)) and (isinstance(b, Iv) or _int(b))):
            return TOP
        dt = a.dtype if isinstance(a, Iv) else b.dtype
        for s in (a, b):
            if _int(s) and not fits(s, s, dt):
                p.events.append(Event("overflow", e, text=f"python int {s} in `{ast.unparse(e)}` is not representable in {dt} "
                                                          f"(numpy raises OverflowError)"))
                r = RANGES[dt]
                return Iv(r[0], r[1], dt)
        ia = a if isinstance(a, Iv) else Iv(a, a, dt)
        ib = b if isinstance(b, Iv) else Iv(b, b, dt)
        if isinstance(o, ast.Add):
            return self._chk(Iv(ia.lo + ib.lo, ia.hi + ib.hi, dt), e, p)
        if isinstance(o, ast.Sub):
            return self._chk(Iv(ia.lo - ib.hi, ia.hi - ib.lo, dt), e, p)
        if isinstance(o, ast.Mult):
            c = [ia.lo * ib.lo, ia.lo * ib.hi, ia.hi * ib.lo, ia.hi * ib.hi]
            return self._chk(Iv(min(c), max(c), dt), e, p)
        if isinstance(o, ast.LShift):
            ev = Event("shift", e, operand=ia, amount=ib, loop=p.loop, ok=True, text="")
            p.events.append(ev)
            if ib.lo < 0 or ib.hi >= 64:
                ev.ok = False
                ev.text = f"shift count in [{ib.lo}, {ib.hi}] in `{ast.unparse(e)}`"
                r = RANGES[dt]
                return Iv(r[0], r[1], dt)
            lo = min(ia.lo << ib.lo, ia.lo << ib.hi)
            hi = max(ia.hi << ib.lo, ia.hi << ib.hi)
            if not fits(lo, hi, dt):
                ev.ok = False
                ev.text = (f"`{ast.unparse(e)}`: elements in [{ia.lo}, {ia.hi}] shifted left by {ib.hi} reach "
                           f"[{lo}, {hi}], outside {dt} (bits are lost or land in the sign bit)")
                r = RANGES[dt]
                return Iv(r[0], r[1], dt)
            return Iv(lo, hi, dt)
        if isinstance(o, ast.RShift):
            if ib.lo < 0:
                return Iv(*RANGES[dt], dt)
            return Iv(min(ia.lo >> ib.lo, ia.lo >> ib.hi), max(ia.hi >> ib.lo, ia.hi >> ib.hi), dt)
        if isinstance(o, (ast.BitOr, ast.BitXor, ast.BitAnd)):
            if ia.lo >= 0 and ib.lo >= 0:
                if isinstance(o, ast.BitAnd):
                    return Iv(0, min(ia.hi, ib.hi), dt)
                bits = max(ia.hi.bit_length(), ib.hi.bit_length())
                return Iv(0, (1 << bits) - 1, dt)
            return Iv(*RANGES[dt], dt)
        return TOP

    def call(self, e, p):
        f = e.func
        fname = f.attr if isinstance(f, ast.Attribute) else getattr(f, "id", None)
        args = e.args
        kw = {k.arg: k.value for k in e.keywords if k.arg}
        if fname in ("int",) and len(args) == 1:
            v = self.ev(args[0], p)
            return int(v) if _num(v) else TOP
        if fname in ("floor", "ceil", "trunc", "round") and len(args) == 1:
            v = self.ev(args[0], p)
            if _num(v):
                return {"floor": math.floor, "ceil": math.ceil, "trunc": math.trunc, "round": round}[fname](v)
            return TOP
        if fname in ("asanyarray", "asarray", "array", "ascontiguousarray") and args:
            dt = ast.unparse(kw["dtype"]).split(".")[-1] if "dtype" in kw else (
                ast.unparse(args[1]).split(".")[-1] if len(args) > 1 else None)
            v = self.ev(args[0], p)
            if dt in RANGES:
                if isinstance(v, Iv) and fits(v.lo, v.hi, dt):
                    return Iv(v.lo, v.hi, dt)
                return Iv(*RANGES[dt], dt)
            return v if isinstance(v, Iv) else TOP
        if fname == "float_to_int":
            return Iv(*INT64, "int64")
        if fname == "astype" and isinstance(f, ast.Attribute) and args:
            v = self.ev(f.value, p)
            dt = ast.unparse(args[0]).split(".")[-1]
            if isinstance(v, Iv) and dt in RANGES:
                if not fits(v.lo, v.hi, dt):
                    p.events.append(Event("overflow", e, text=f"astype({dt}) of values in [{v.lo}, {v.hi}] wraps around"))
                    return Iv(*RANGES[dt], dt)
                return Iv(v.lo, v.hi, dt)
            return TOP
        if fname in ("min", "max", "amin", "amax"):
            kind = "min" if "min" in fname else "max"
            if isinstance(f, ast.Attribute) and not args and isinstance(f.value, ast.Name):
                v = self.ev(f.value, p)
                if isinstance(v, Iv):
                    return Ext(kind, [f.value.id])
            vals = [self.ev(a, p) for a in args]
            if vals and all(isinstance(v, Ext) and v.kind == kind for v in vals):
                return Ext(kind, [n for v in vals for n in v.names])
            if vals and all(_num(v) for v in vals):
                return (min if kind == "min" else max)(vals)
            if len(args) == 1 and isinstance(args[0], ast.Name) and isinstance(vals[0], Iv):
                return Ext(kind, [args[0].id])
            return TOP
        if fname == "zeros":
            dt = ast.unparse(kw["dtype"]).split(".")[-1] if "dtype" in kw else None
            if dt in RANGES:
                return Iv(0, 0, dt)
            return TOP
        if fname in ("bitwise_xor", "bitwise_or", "bitwise_and", "left_shift", "add") and len(args) >= 2:
            o = {"bitwise_xor": ast.BitXor, "bitwise_or": ast.BitOr, "bitwise_and": ast.BitAnd,
                 "left_shift": ast.LShift, "add": ast.Add}[fname]()
            fake = ast.BinOp(left=args[0], op=o, right=args[1])
            ast.copy_location(fake, e)
            ast.fix_missing_locations(fake)
            r = self.binop(fake, self.ev(args[0], p), self.ev(args[1], p), p)
            p.events.append(Event("combine", e, fn=fname, target=ast.unparse(kw["out"]) if "out" in kw else None, loop=p.loop))
            if "out" in kw and isinstance(kw["out"], ast.Name) and isinstance(r, Iv):
                p.env[kw["out"].id] = r
            return r
        if fname == "column_stack" or fname == "len" or fname == "enumerate" or fname == "range":
            return TOP
        # unknown call: evaluate args for their events, result unknown
        for a in args:
            self.ev(a, p)
        return TOP

    # ---------------------------------------------------------------- statements
    def run(self, body, p):
        """returns list of paths that fall through the end of `body`"""
        paths = [p]
        for st in body:
            nxt = []
            for q in paths:
                nxt.extend(self.stmt(st, q))
            paths = nxt
            if len(paths) + len(self.finished) > self.max_paths:
                raise AnalysisError("interval interpreter: path explosion")
            if not paths:
                break
        return paths

    def stmt(self, st, p):
        if isinstance(st, ast.Assign):
            v = self.ev(st.value, p)
            for t in st.targets:
                self._bind(t, v, p)
            return [p]
        if isinstance(st, ast.AugAssign) and isinstance(st.target, ast.Name):
            fake = ast.BinOp(left=ast.Name(id=st.target.id, ctx=ast.Load()), op=st.op, right=st.value)
            ast.copy_location(fake, st)
            ast.fix_missing_locations(fake)
            v = self.binop(fake, p.env.get(st.target.id, TOP), self.ev(st.value, p), p)
            p.events.append(Event("combine", st, fn=type(st.op).__name__, target=st.target.id, loop=p.loop))
            p.env[st.target.id] = v
            return [p]
        if isinstance(st, ast.Expr):
            self.ev(st.value, p)
            return [p]
        if isinstance(st, ast.Return):
            if st.value is not None:
                p.returned = (st, self.ev(st.value, p))
            else:
                p.returned = (st, None)
            self.finished.append(p)
            return []
        if isinstance(st, ast.Raise):
            return []
        if isinstance(st, ast.If):
            t = self.ev(st.test, p)
            out = []
            if t is True:
                return self.run(st.body, p)
            if t is False:
                return self.run(st.orelse, p) if st.orelse else [p]
            pt, pf = p.fork(), p.fork()
            feasible = self.refine(nnf(st.test), pt)
            pt.guards.append(ast.unparse(st.test))
            if feasible:
                out.extend(self.run(st.body, pt))
            # the other arm holds the negation (pushed inwards: `not (a >= t or b <= -t)` is `a < t and b > -t`)
            neg = nnf(ast.UnaryOp(op=ast.Not(), operand=st.test))
            refines = isinstance(neg, ast.Compare) or (isinstance(neg, ast.BoolOp) and isinstance(neg.op, ast.And))
            feasible_f = self.refine(neg, pf) if refines else True
            if refines and st.orelse:
                pf.guards.append(ast.unparse(neg))
            if feasible_f:
                out.extend(self.run(st.orelse, pf) if st.orelse else [pf])
            return out
        if isinstance(st, ast.For):
            # for i, col in enumerate(X) with known column count: unroll
            it = st.iter
            if (isinstance(it, ast.Call) and getattr(it.func, "id", "") == "enumerate" and self.cols is not None
                    and isinstance(st.target, ast.Tuple) and len(st.target.elts) == 2):
                src = self.ev(it.args[0], p)
                if isinstance(src, Iv):
                    paths = [p]
                    for k in range(self.cols):
                        nxt = []
                        for q in paths:
                            q.env[st.target.elts[0].id] = k
                            q.env[st.target.elts[1].id] = Iv(src.lo, src.hi, src.dtype)
                            q.loop = (id(st), k)
                            nxt.extend(self.run(st.body, q))
                        paths = nxt
                    for q in paths:
                        q.loop = None
                    return paths
            if isinstance(it, ast.Call) and getattr(it.func, "id", "") == "range":
                rng = [self.ev(a, p) for a in it.args]
                if all(_int(r) for r in rng) and len(range(*rng)) <= 8 and isinstance(st.target, ast.Name):
                    paths = [p]
                    for k in range(*rng):
                        nxt = []
                        for q in paths:
                            q.env[st.target.id] = k
                            q.loop = (id(st), k)
                            nxt.extend(self.run(st.body, q))
                        paths = nxt
                    for q in paths:
                        q.loop = None
                    return paths
            # unknown loop: havoc assigned names, run body once for its events
            for n in ast.walk(st):
                if isinstance(n, ast.Name) and isinstance(n.ctx, ast.Store):
                    p.env[n.id] = TOP
            q = p.fork()
            self.run(st.body, q)
            p.events.extend(ev for ev in q.events if ev not in p.events)
            return [p]
        if isinstance(st, (ast.While, ast.With, ast.Try)):
            for n in ast.walk(st):
                if isinstance(n, ast.Name) and isinstance(n.ctx, ast.Store):
                    p.env[n.id] = TOP
            return [p]
        return [p]

    def _bind(self, t, v, p):
        if isinstance(t, ast.Name):
            p.env[t.id] = v
        elif isinstance(t, ast.Tuple):
            if isinstance(v, tuple) and len(v) == len(t.elts):
                for a, b in zip(t.elts, v):
                    self._bind(a, b, p)
            else:
                for a in t.elts:
                    self._bind(a, TOP, p)

    def refine(self, test, p):
        """refine arrays under `test` being true; returns False when the branch is infeasible"""
        conj = test.values if isinstance(test, ast.BoolOp) and isinstance(test.op, ast.And) else [test]
        for c in conj:
            if isinstance(c, ast.BoolOp) and isinstance(c.op, ast.And):
                if not self.refine(c, p):
                    return False
                continue
            v = self.ev(c, p)
            if v is False:
                return False
            if not (isinstance(c, ast.Compare) and len(c.ops) == 1):
                continue
            L, R = self.ev(c.left, p), self.ev(c.comparators[0], p)
            o = c.ops[0]
            if isinstance(R, Ext) and _num(L):
                L, R = R, L
                o = {ast.Lt: ast.Gt, ast.LtE: ast.GtE, ast.Gt: ast.Lt, ast.GtE: ast.LtE, ast.Eq: ast.Eq}.get(type(o), type(None))()
            if not (isinstance(L, Ext) and _num(R)):
                continue
            for name in L.names:
                a = p.env.get(name)
                if not isinstance(a, Iv):
                    continue
                # max(X) bounds every element from above, min(X) from below
                if L.kind == "max" and isinstance(o, ast.Lt):
                    a.hi = min(a.hi, math.ceil(R) - 1)
                elif L.kind == "max" and isinstance(o, ast.LtE):
                    a.hi = min(a.hi, math.floor(R))
                elif L.kind == "min" and isinstance(o, ast.Gt):
                    a.lo = max(a.lo, math.floor(R) + 1)
                elif L.kind == "min" and isinstance(o, ast.GtE):
                    a.lo = max(a.lo, math.ceil(R))
                if a.lo > a.hi:
                    return False
        return True


def nnf(test):
    """negation normal form of a test: `not` pushed down to the comparisons (which flip their operator)"""
    flip = {ast.Lt: ast.GtE, ast.LtE: ast.Gt, ast.Gt: ast.LtE, ast.GtE: ast.Lt, ast.Eq: ast.NotEq, ast.NotEq: ast.Eq,
            ast.Is: ast.IsNot, ast.IsNot: ast.Is, ast.In: ast.NotIn, ast.NotIn: ast.In}

    def pos(t):
        if isinstance(t, ast.UnaryOp) and isinstance(t.op, ast.Not):
            return neg(t.operand)
        if isinstance(t, ast.BoolOp):
            return ast.copy_location(ast.BoolOp(op=t.op, values=[pos(v) for v in t.values]), t)
        return t

    def neg(t):
        if isinstance(t, ast.UnaryOp) and isinstance(t.op, ast.Not):
            return pos(t.operand)
        if isinstance(t, ast.BoolOp):
            op = ast.Or() if isinstance(t.op, ast.And) else ast.And()
            return ast.copy_location(ast.BoolOp(op=op, values=[neg(v) for v in t.values]), t)
        if isinstance(t, ast.Compare) and len(t.ops) == 1 and type(t.ops[0]) in flip:
            return ast.copy_location(ast.Compare(left=t.left, ops=[flip[type(t.ops[0])]()], comparators=t.comparators), t)
        return ast.copy_location(ast.UnaryOp(op=ast.Not(), operand=t), t)

    return ast.fix_missing_locations(pos(test))


def _num(v):
    return isinstance(v, (int, float)) and not isinstance(v, bool)


def _int(v):
    return isinstance(v, int) and not isinstance(v, bool)
