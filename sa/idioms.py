"""Numpy spellings that mean the same thing for the arguments a rule looks at; rules ask these helpers instead of comparing
text.  (Spellings that are equal for EVERY argument are unified once, when a module is loaded: sa/index.py `_Idioms`.)"""
from __future__ import annotations

import ast

_NP = ("np.", "numpy.")


def _fname(call):
    t = ast.unparse(call.func)
    for p in _NP:
        if t.startswith(p):
            return t[len(p):]
    return t


def stack_rows(node):
    """parts of a row-wise stacking of 2-D arrays: vstack / row_stack / concatenate(axis=0) / append(a, b, axis=0); else None"""
    if not isinstance(node, ast.Call):
        return None
    fn = _fname(node)
    kw = {k.arg: k.value for k in node.keywords if k.arg}
    axis = kw.get("axis")
    ax = ast.unparse(axis) if axis is not None else None
    if fn in ("vstack", "row_stack") and len(node.args) == 1 and isinstance(node.args[0], (ast.Tuple, ast.List)):
        return list(node.args[0].elts)
    if fn == "concatenate" and node.args and isinstance(node.args[0], (ast.Tuple, ast.List)):
        if len(node.args) > 1:
            ax = ast.unparse(node.args[1])
        if ax in (None, "0"):
            return list(node.args[0].elts)
    if fn == "append" and len(node.args) >= 2:
        if len(node.args) > 2:
            ax = ast.unparse(node.args[2])
        if ax == "0":
            return list(node.args[:2])
    return None


def nonzero_rows(node):
    """M when node is the index array of the true entries of a 1-D mask M: nonzero(M)[0] / where(M)[0] / flatnonzero(M)"""
    if isinstance(node, ast.Subscript) and ast.unparse(node.slice) == "0" and isinstance(node.value, ast.Call) and _fname(node.value) in ("nonzero", "where") \
            and len(node.value.args) == 1 and not node.value.keywords:
        return node.value.args[0]
    if isinstance(node, ast.Call) and _fname(node) == "flatnonzero" and len(node.args) == 1:
        return node.args[0]
    return None


def keyed_stores(ix, f, container="self._data", strip=True, _depth=1):
    """[(key, value text, where)] for every `<container>[<key>] = <value>` that running `f` performs - in its own body, or
    in a method of its class that it hands the key and the value to (`self._store(key, value)`: one level, arguments
    bound by position or keyword).  `key` is the constant key (a str) or the canonical text of a non-constant one; the
    value is the canonical text on the value graph of the function that contains the store, with the helper's
    parameters replaced by the caller's argument values.  strip=False keeps conversion calls visible."""
    import re

    from .dag import Values

    V = Values(ix, f, strip=strip)
    out = []
    for st in ast.walk(f.node):
        if isinstance(st, ast.Assign) and isinstance(st.targets[0], ast.Subscript) and ast.unparse(st.targets[0].value) == container:
            k = st.targets[0].slice
            key = k.value if isinstance(k, ast.Constant) else V.text(V.value(k, st), 6, 300)
            out.append((key, V.text(V.value(st.value, st), 8, 600), f.where))
    if _depth <= 0 or f.cls is None:
        return out
    recv = container.split(".")[0]
    for c in ast.walk(f.node):
        if not (isinstance(c, ast.Call) and isinstance(c.func, ast.Attribute) and isinstance(c.func.value, ast.Name) and c.func.value.id == recv):
            continue
        mem = ix.member(f.cls, c.func.attr)
        h = mem.get("method") if mem else None
        if h is None or h is f or any(isinstance(a, ast.Starred) for a in c.args) or any(k.arg is None for k in c.keywords):
            continue
        inner = keyed_stores(ix, h, container.replace(recv, h.params[0], 1) if h.params else container, strip, _depth - 1)
        if not inner:
            continue
        st = V.pv.stmt_of(c)
        if st is None:
            continue
        bound = dict(zip(h.params[1:], c.args))
        bound.update({k.arg: k.value for k in c.keywords})
        texts = {p_: (a_.value if isinstance(a_, ast.Constant) else None, V.text(V.value(a_, st), 8, 600)) for p_, a_ in bound.items()}

        def sub(t):
            return re.sub(r"\bP_(\w+)\b", lambda m: texts[m.group(1)][1] if m.group(1) in texts else m.group(0), t)

        for key, val, where in inner:
            m = re.fullmatch(r"P_(\w+)", key) if isinstance(key, str) else None
            if m and m.group(1) in texts:
                key = texts[m.group(1)][0] if texts[m.group(1)][0] is not None else texts[m.group(1)][1]
            out.append((key, sub(val), where))
    return out


def hand_packed_keys(ix, f):
    """[(call node, packed-key text, why)] for calls in `f` that establish ROW identity (np.unique / np.argsort / np.sort /
    np.searchsorted / np.bincount / np.isin / np.in1d / set()) on a key packed by hand from two columns of an index array,
    `a[:, i] * n + a[:, j]`, without widening the columns to int64 first.  The product is computed in the array's own
    dtype: for 32-bit indices (index buffers from files, GPU libraries) it wraps around as soon as n**2 exceeds the dtype,
    two different rows then get one key.  grouping.hashable_rows (C06) is the place that packs safely."""
    import re

    from .dag import Values

    V = None
    out = []
    users = {"numpy.unique", "numpy.argsort", "numpy.sort", "numpy.searchsorted", "numpy.bincount", "numpy.isin", "numpy.in1d", "set",
             "numpy.lexsort", "trimesh.grouping.unique_bincount", "trimesh.grouping.unique_ordered", "trimesh.grouping.group"}
    for c in ast.walk(f.node):
        if not (isinstance(c, ast.Call) and c.args):
            continue
        if V is None:
            V = Values(ix, f, strip=False)
        name = V.pv.callee(c.func) or ast.unparse(c.func)
        if name not in users:
            continue
        st = V.pv.stmt_of(c)
        if st is None:
            continue
        key = V.value(c.args[0], st)
        for tpl in ("_e_A * _e_N + _e_B", "_e_A * _e_N | _e_B", "_e_A << _e_N | _e_B", "(_e_A << _e_N) + _e_B"):
            env = V.match(tpl, key)
            if env is None:
                continue
            ta, tb, tn = (V.text(env[k], 8, 500) for k in ("_e_A", "_e_B", "_e_N"))
            # both operands are columns (or unpacked rows) of an index array
            col = re.compile(r"\[:, ?-?\d+\]|\.T\[-?\d+\]|EACH\(|\[\.\.\., ?-?\d+\]")
            if not (col.search(ta) and col.search(tb)):
                continue
            widened = any(re.search(r"int64|numpy\.(int_|intp|uint64)|astype\(int\)|dtype=int\b", t) for t in (ta, tb, tn))
            if widened:
                continue
            out.append((c, V.text(key, 4, 200), f"`{name.split('.')[-1]}` over `{V.text(key, 3, 120)}`: two index columns packed into one integer in the array's own dtype"))
            break
    return out


def returned_tuples(fnode, min_len=2):
    """[(location statement, [element expressions])] for every tuple the function returns: `return a, b` directly, or
    `return name` where every assignment of `name` is a tuple display (`result = (a, b)` in the arms of an if-chain).
    The location statement is where the elements are evaluated (the Return, or the assignment)."""
    out = []
    stores = {}
    for st in ast.walk(fnode):
        if isinstance(st, ast.Assign) and len(st.targets) == 1 and isinstance(st.targets[0], ast.Name):
            stores.setdefault(st.targets[0].id, []).append(st)
    other_stores = {}
    for n in ast.walk(fnode):
        if isinstance(n, ast.Name) and isinstance(n.ctx, (ast.Store, ast.Del)):
            other_stores[n.id] = other_stores.get(n.id, 0) + 1
    for r in ast.walk(fnode):
        if not isinstance(r, ast.Return) or r.value is None:
            continue
        if isinstance(r.value, ast.Tuple) and len(r.value.elts) >= min_len:
            out.append((r, list(r.value.elts)))
        elif isinstance(r.value, ast.Name):
            defs = stores.get(r.value.id, [])
            if defs and len(defs) == other_stores.get(r.value.id, 0) and all(isinstance(d.value, ast.Tuple) and len(d.value.elts) >= min_len for d in defs):
                for d in defs:
                    out.append((d, list(d.value.elts)))
    return out
