"""Numpy spellings that mean the same thing for the arguments a rule looks at; rules ask these helpers instead of comparing
text.  (Spellings that are equal for EVERY argument are unified once, when a module is loaded: sa/index.py `_Idioms`.)"""
from __future__ import annotations

import ast

_NP = ("np.", "numpy.")


def _fname(call):
    t = ast.unparse(call.func)
    for p in _NP:
        if t.startswith(p):
            return t[len(p):]
    return t


def stack_rows(node):
    """parts of a row-wise stacking of 2-D arrays: vstack / row_stack / concatenate(axis=0) / append(a, b, axis=0); else None"""
    if not isinstance(node, ast.Call):
        return None
    fn = _fname(node)
    kw = {k.arg: k.value for k in node.keywords if k.arg}
    axis = kw.get("axis")
    ax = ast.unparse(axis) if axis is not None else None
    if fn in ("vstack", "row_stack") and len(node.args) == 1 and isinstance(node.args[0], (ast.Tuple, ast.List)):
        return list(node.args[0].elts)
    if fn == "concatenate" and node.args and isinstance(node.args[0], (ast.Tuple, ast.List)):
        if len(node.args) > 1:
            ax = ast.unparse(node.args[1])
        if ax in (None, "0"):
            return list(node.args[0].elts)
    if fn == "append" and len(node.args) >= 2:
        if len(node.args) > 2:
            ax = ast.unparse(node.args[2])
        if ax == "0":
            return list(node.args[:2])
    return None


def nonzero_rows(node):
    """M when node is the index array of the true entries of a 1-D mask M: nonzero(M)[0] / where(M)[0] / flatnonzero(M)"""
    if isinstance(node, ast.Subscript) and ast.unparse(node.slice) == "0" and isinstance(node.value, ast.Call) and _fname(node.value) in ("nonzero", "where") \
            and len(node.value.args) == 1 and not node.value.keywords:
        return node.value.args[0]
    if isinstance(node, ast.Call) and _fname(node) == "flatnonzero" and len(node.args) == 1:
        return node.args[0]
    return None
