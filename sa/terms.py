"""Shared-subterm view of a canonical term.

The SSA canonical form of a value (sa/provenance.py) is a tree in which a local that is used n times appears n times;
for numerical code that threads a few intermediate arrays through many steps the text explodes.  `Terms` re-introduces
sharing without re-introducing the source's names: every subterm that occurs more than once (and is not tiny) gets a
symbol `T1, T2, ...` numbered by first occurrence in a pre-order walk, so that two sources with the same canonical
tree get the same symbols.  Rules match templates against the short text and look one level down with `defs[sym]` /
`expand`.

    t = Terms(text)
    t.short            'trimesh.transformations.planar_matrix(-T3[T7][:2] - T5[T7] * 0.5, numpy.arctan2(*T2[T7][::-1]))'
    t.defs['T3']       'numpy.column_stack((T1.min(axis=1), ...))'
    t.expand('T3[T7]', depth=1)
"""
from __future__ import annotations

import ast
import copy
import re


class Terms:
    def __init__(self, text_or_ast, min_len=28):
        tree = ast.parse(text_or_ast if isinstance(text_or_ast, str) else ast.unparse(text_or_ast), mode="eval").body
        # count structural duplicates
        count, size, first = {}, {}, {}
        order = 0
        for n in _preorder(tree):
            if not isinstance(n, ast.expr) or isinstance(n, (ast.Name, ast.Constant, ast.Starred, ast.Slice)):
                continue
            d = ast.dump(n)
            count[d] = count.get(d, 0) + 1
            if d not in first:
                first[d] = order
                size[d] = len(ast.unparse(n))
                order += 1
        shared = [d for d, c in count.items() if c >= 2 and size[d] >= min_len]
        shared.sort(key=lambda d: first[d])
        self.sym = {d: f"T{i + 1}" for i, d in enumerate(shared)}
        self.defs = {}
        sym = self.sym

        class R(ast.NodeTransformer):
            def generic_visit(self, node):
                return super().generic_visit(node)

            def visit(self, node):
                if isinstance(node, ast.expr):
                    d = ast.dump(node)
                    if d in sym:
                        return ast.Name(id=sym[d], ctx=ast.Load())
                return super().visit(node)

        # definitions: the subterm itself with its own shared subterms replaced
        for d in shared:
            node = _find(tree, d)
            inner = copy.deepcopy(node)
            # replace children (not the node itself)
            for fld, val in ast.iter_fields(inner):
                if isinstance(val, ast.AST):
                    setattr(inner, fld, R().visit(val))
                elif isinstance(val, list):
                    setattr(inner, fld, [R().visit(v) if isinstance(v, ast.AST) else v for v in val])
            self.defs[sym[d]] = ast.unparse(ast.fix_missing_locations(inner))
        self.short = ast.unparse(ast.fix_missing_locations(R().visit(copy.deepcopy(tree))))

    def expand(self, text, depth=1):
        """replace symbols in text by their definitions, `depth` levels"""
        for _ in range(depth):
            new = re.sub(r"\bT\d+\b", lambda m: "(" + self.defs[m.group(0)] + ")" if m.group(0) in self.defs else m.group(0), text)
            if new == text:
                break
            text = new
        try:
            return ast.unparse(ast.parse(text, mode="eval").body)
        except SyntaxError:
            return text

    def full(self, text):
        return self.expand(text, depth=50)


def _preorder(node):
    yield node
    for c in ast.iter_child_nodes(node):
        yield from _preorder(c)


def _find(tree, dump):
    for n in _preorder(tree):
        if isinstance(n, ast.expr) and ast.dump(n) == dump:
            return n
    return None
