"""E1 - interprocedural read / write / alias effect summaries over access paths.

A summary describes one function (for one receiver class when it is a method):
  reads   {(root, path, tag)}   tag in {'value','shape'}: state the result may depend on
  writes  {(root, path, kind)}  kind in {'rebind','inplace','memo'}: state the call may change
  ret     {Ref}                 what the returned value may share storage with
  effects {'RANDOM','OPENS','EXITS'}
roots are parameter names (or FRESH / GLOBAL:<name> / UNKNOWN).  Paths are tuples of
steps: attribute names, '[key]' for constant dict keys, '[*]' for unknown keys /
elements.  Property reads are replaced by the getter's own summary (through the MRO of
the receiver class); cache_decorator getters additionally write a 'memo' entry.
Local variables are tracked flow-insensitively (Andersen style inside a function).
Nothing is executed.
"""
from __future__ import annotations

import ast

from .index import ClassInfo, FuncInfo, Module

MAXLEN = 6
FRESH = "<fresh>"
UNKNOWN = "<unknown>"

# external callables whose result is new storage
FRESH_FUNCS = {
    "array", "copy", "deepcopy", "ascontiguousarray", "zeros", "ones", "empty", "arange", "eye", "full", "zeros_like",
    "ones_like", "empty_like", "column_stack", "vstack", "hstack", "stack", "concatenate", "tile", "repeat", "cross", "dot",
    "sort", "unique", "where", "nonzero", "cumsum", "diff", "append", "fliplr", "flipud", "roll", "linspace", "sum", "mean",
    "abs", "sqrt", "dict", "list", "set", "tuple", "sorted", "frozenset", "str", "int", "float", "bool", "len", "range",
    "tolist", "tobytes", "astype", "flatten", "round", "clip", "min", "max", "any", "all", "isfinite", "isnan", "bincount",
    "argsort", "lexsort", "searchsorted", "einsum", "outer", "trace", "inv", "pinv", "norm", "det", "svd", "eigh", "eig",
    "multi_dot", "matmul", "prod", "ptp", "allclose", "isclose", "array_equal", "hex", "hash", "id", "type", "isinstance",
    "join", "format", "encode", "decode", "split", "strip", "lower", "upper", "replace", "startswith", "endswith",
    "items", "keys", "values", "enumerate", "zip", "map", "filter", "reversed", "iter", "next", "getattr_default",
    "frombuffer_copy", "loads", "dumps", "namedtuple", "OrderedDict", "defaultdict", "deque", "Counter",
}
# external callables that may return a view / the same object
ALIAS_FUNCS = {"asanyarray", "asarray", "reshape", "view", "ravel", "squeeze", "transpose", "atleast_1d", "atleast_2d",
               "atleast_3d", "swapaxes", "expand_dims", "broadcast_to", "frombuffer", "get", "setdefault", "pop", "__getitem__",
               "real", "imag", "diagonal"}
ALIAS_ATTRS = {"T", "flat", "real", "imag", "base", "data"}
SHAPE_ATTRS = {"shape", "dtype", "ndim", "size", "itemsize", "nbytes", "flags"}
# methods that mutate their receiver when the receiver is not an in-repo object defining them
MUTATING_METHODS = {"sort", "fill", "put", "itemset", "resize", "partition", "byteswap", "setfield", "update", "pop", "popitem",
                    "append", "extend", "clear", "remove", "insert", "setdefault", "add", "discard", "reverse", "setflags",
                    "__setitem__", "__delitem__", "appendleft", "popleft", "write", "writelines", "shuffle"}
RANDOM_PREFIXES = ("numpy.random", "random.", "uuid.", "secrets.", "os.urandom")
OPEN_NAMES = {"open", "ZipFile", "TarFile"}
EXIT_NAMES = {"sys.exit", "os._exit", "exit", "quit", "os.abort"}
# dict-like containers: subscripting with a constant key addresses an item, assignment rebinds it
DICT_STEPS = {"_data", "data", "_cache", "cache", "metadata", "face_attributes", "vertex_attributes", "geometry", "parents",
              "edge_data", "node_data", "kwargs", "vertex_attributes", "_attrib", "extras", "_visual_attributes"}
COLLECTION_STEPS = {"entities", "geometry", "materials", "children", "nodes", "meshes", "lights"}

# getters that lazily create a default object on first access; the creation is not an effect of the operation that
# happened to be the first reader (reasoned, frozen): their non-memo writes are not merged into callers
LAZY_GETTERS = {
    "trimesh.scene.scene:Scene.camera": "creates a default camera (and its graph node) when none was set",
    "trimesh.scene.scene:Scene.lights": "creates default lights when none were set",
    "trimesh.parent:Geometry.source": "creates an empty LoadSource when the loader did not attach one",
    "trimesh.path.entities:Entity.metadata": "creates the entity's metadata dict on first access",
    "trimesh.path.entities:Entity.layer": "reads through the lazily created metadata dict",
    "trimesh.scene.cameras:Camera.fov": "derives and remembers fov from focal length on first access",
    "trimesh.scene.cameras:Camera.focal": "derives and remembers focal length from fov on first access",
}

# receiver typing by attribute / parameter name (the repository's naming conventions; frozen, printed in evidence)
ATTR_ROLE = {
    "_data": ["trimesh.caching.DataStore"], "_cache": ["trimesh.caching.Cache"],
    "visual": ["trimesh.visual.color.ColorVisuals", "trimesh.visual.texture.TextureVisuals"],
    "_visual": ["trimesh.visual.color.ColorVisuals", "trimesh.visual.texture.TextureVisuals"],
    "graph": ["trimesh.scene.transforms.SceneGraph"], "transforms": ["trimesh.scene.transforms.EnforcedForest"],
    "mesh": ["trimesh.base.Trimesh"], "primitive": ["trimesh.primitives.PrimitiveAttributes"],
    "scene": ["trimesh.scene.scene.Scene"], "camera": ["trimesh.scene.cameras.Camera"],
    "_camera": ["trimesh.scene.cameras.Camera"],
    "nearest": ["trimesh.proximity.ProximityQuery"], "permutate": ["trimesh.permutate.Permutator"],
    "encoding": ["trimesh.voxel.encoding.Encoding"], "_transform": ["trimesh.voxel.transforms.Transform"],
    "material": ["trimesh.visual.material.Material"],
    "vertex_attributes@TextureVisuals": ["trimesh.caching.DataStore"],
}
PARAM_ROLE = {
    "mesh": ["trimesh.base.Trimesh"], "scene": ["trimesh.scene.scene.Scene"], "graph": ["trimesh.scene.transforms.SceneGraph"],
    "path": ["trimesh.path.path.Path"], "drawing": ["trimesh.path.path.Path"], "geometry": ["trimesh.parent.Geometry"],
    "geom": ["trimesh.parent.Geometry"], "cloud": ["trimesh.points.PointCloud"], "voxel": ["trimesh.voxel.base.VoxelGrid"],
    "primitive": ["trimesh.primitives.Primitive"], "visual": ["trimesh.visual.color.ColorVisuals", "trimesh.visual.texture.TextureVisuals"],
    "forest": ["trimesh.scene.transforms.EnforcedForest"], "entity": ["trimesh.path.entities.Entity"],
    "camera": ["trimesh.scene.cameras.Camera"], "material": ["trimesh.visual.material.Material"],
}
ELEMENT_ROLE = {"entities": ["trimesh.path.entities.Entity"], "geometry": ["trimesh.parent.Geometry"]}


class Ref:
    """`held`: the storage is an ELEMENT of a container built in this function (list / dict / set literal or
    comprehension); mutating the container is not a write to the element, taking an element gives the storage back"""
    __slots__ = ("root", "path", "held")

    def __init__(self, root, path=(), held=0):
        self.root = root
        self.path = tuple(path)[:MAXLEN]
        self.held = int(held)  # nesting depth inside containers built in this function (0: the storage itself)

    def __hash__(self):
        return hash((self.root, self.path, self.held))

    def __eq__(self, o):
        return isinstance(o, Ref) and self.root == o.root and self.path == o.path and self.held == o.held

    def ext(self, step):
        return Ref(self.root, self.path + (step,))

    def hold(self):
        return self if self.root == FRESH else Ref(self.root, self.path, min(self.held + 1, 4))

    def unhold(self):
        return Ref(self.root, self.path, self.held - 1) if self.held else self

    def bare(self):
        return Ref(self.root, self.path) if self.held else self

    @property
    def fresh(self):
        return self.root == FRESH

    def __repr__(self):
        return self.root + "".join("." + s if not s.startswith("[") else s for s in self.path)


def norm_path(path):
    """DataStore and Cache are addressed the same whether through the object or its inner dict"""
    out = []
    for s in path:
        if s in ("data",) and out and out[-1] in ("_data",):
            continue
        if s in ("cache",) and out and out[-1] in ("_cache",):
            continue
        out.append(s)
    return tuple(out)


class Summary:
    def __init__(self):
        self.reads = set()
        self.writes = set()
        self.ret = set()
        self.ret_types = set()
        self.effects = set()
        self.calls = set()
        self.unresolved = set()
        self.sites = {}  # (root, path, kind) -> first (lineno, text) that caused the write
        self.effect_sites = {}
        # memo writes that are unconditional assignments (`_cache[k] = v`, a setter); the fill-on-miss of a cache_decorator
        # getter is a memo write too, but it never replaces an entry that is already there
        self.explicit_memo = set()

    def size(self):
        return len(self.reads) + len(self.writes) + len(self.ret) + len(self.effects) + len(self.ret_types) + len(self.explicit_memo)


class Effects:
    def __init__(self, ix):
        self.ix = ix
        self.summaries = {}
        self.in_progress = set()
        self.shared = self._shared_stores()
        self.stats = {"functions": 0, "call_sites": 0, "resolved": 0, "external": 0, "unresolved": 0}
        self._cls_cache = {}

    # ------------------------------------------------------------------ typing helpers
    def classes(self, names):
        out = []
        for n in names:
            if n in self._cls_cache:
                c = self._cls_cache[n]
            else:
                r = self.ix.resolve_dotted(n)
                c = r if isinstance(r, ClassInfo) else None
                self._cls_cache[n] = c
            if c is not None:
                out.append(c)
        return out

    def _shared_stores(self):
        """(OwnerClass, attr, field) -> owner field: sub-object K built as `self.attr = K(self|self.g ...)`
        whose __init__ stores `self.field = param` / `self.field = param.g` shares the owner's store"""
        shared = {}
        ctor = {}
        for m in self.ix.modules.values():
            for c in m.classes.values():
                init = c.methods.get("__init__")
                if init is None:
                    continue
                for st in ast.walk(init.node):
                    if isinstance(st, ast.Assign) and len(st.targets) == 1 and isinstance(st.targets[0], ast.Attribute) \
                            and isinstance(st.targets[0].value, ast.Name) and st.targets[0].value.id == "self":
                        v = st.value
                        if isinstance(v, ast.Name) and v.id in init.params:
                            ctor.setdefault(c, []).append((st.targets[0].attr, v.id, None))
                        elif isinstance(v, ast.Attribute) and isinstance(v.value, ast.Name) and v.value.id in init.params:
                            ctor.setdefault(c, []).append((st.targets[0].attr, v.value.id, v.attr))
        for m in self.ix.modules.values():
            for c in m.classes.values():
                for f in list(c.methods.values()) + list(c.setters.values()):
                    for st in ast.walk(f.node):
                        if not (isinstance(st, ast.Assign) and isinstance(st.value, ast.Call)):
                            continue
                        t = st.targets[0]
                        if not (isinstance(t, ast.Attribute) and isinstance(t.value, ast.Name) and t.value.id == "self"):
                            continue
                        k = self.ix.resolve_expr(m, st.value.func)
                        if not isinstance(k, ClassInfo) or k not in ctor:
                            continue
                        init = k.methods["__init__"]
                        params = init.params[1:]
                        bound = {}
                        for p, a in zip(params, st.value.args):
                            bound[p] = a
                        for kw in st.value.keywords:
                            if kw.arg:
                                bound[kw.arg] = kw.value
                        for field, p, g in ctor[k]:
                            a = bound.get(p)
                            if a is None:
                                continue
                            if isinstance(a, ast.Name) and a.id == "self" and g is not None:
                                shared[(t.attr, field)] = (g,)
                            elif isinstance(a, ast.Attribute) and isinstance(a.value, ast.Name) and a.value.id == "self" and g is None:
                                shared[(t.attr, field)] = (a.attr,)
        return shared

    def normalise(self, path):
        path = list(norm_path(path))
        changed = True
        while changed:
            changed = False
            for i in range(len(path) - 1):
                key = (path[i], path[i + 1])
                if key in self.shared:
                    path[i:i + 2] = list(self.shared[key])
                    changed = True
                    break
        return tuple(norm_path(path))

    # ------------------------------------------------------------------ public
    def summary(self, fi, self_cls=None, ptypes=None):
        if fi.cls is not None and self_cls is None and fi.kind not in ("staticmethod",) and fi.parent is None:
            self_cls = fi.cls
        ptypes = ptypes or frozenset()
        key = (fi, self_cls, ptypes)
        if key in self.summaries:
            return self.summaries[key]
        if key in self.in_progress:
            return Summary()  # recursion cut; second global pass refines
        self.in_progress.add(key)
        try:
            s = _Analyzer(self, fi, self_cls, ptypes).run()
        finally:
            self.in_progress.discard(key)
        self.summaries[key] = s
        self.stats["functions"] += 1
        return s

    def refresh(self):
        """second pass so that recursion cuts see first-pass summaries"""
        keys = list(self.summaries)
        old = self.summaries
        self.summaries = {}
        self.stats = {"functions": 0, "call_sites": 0, "resolved": 0, "external": 0, "unresolved": 0}
        for fi, sc, pt in keys:
            self.summary(fi, sc, pt)


def _const_key(node):
    if isinstance(node, ast.Constant) and isinstance(node.value, (str, int)):
        return f"[{node.value}]"
    return None


class _Analyzer:
    def __init__(self, eng, fi, self_cls, ptypes=frozenset()):
        self.eng = eng
        self.ptypes = dict(ptypes)
        self.ix = eng.ix
        self.fi = fi
        self.mod = fi.module
        self.self_cls = self_cls
        self.s = Summary()
        self.env = {}  # local name -> set(Ref)
        self.types = {}  # local name -> set(ClassInfo)
        self.params = [p.lstrip("*") for p in fi.params]
        self.selfname = self.params[0] if (fi.cls is not None and fi.kind != "staticmethod" and fi.parent is None and self.params) else None
        for p in self.params:
            self.env[p] = {Ref(p)}
            self.types[p] = set()
        if self.selfname and self_cls is not None:
            self.types[self.selfname] = {self_cls}
        # annotations and naming conventions
        a = fi.node.args
        for arg in a.posonlyargs + a.args + a.kwonlyargs:
            if arg.arg == self.selfname:
                continue
            t = set()
            if arg.annotation is not None:
                t |= self._ann_types(arg.annotation)
            if arg.arg in self.ptypes:
                t = set(self.ptypes[arg.arg])  # types flowing in from the call site are the most precise
            elif not t and arg.arg in PARAM_ROLE:
                t |= set(eng.classes(PARAM_ROLE[arg.arg]))
            self.types[arg.arg] = t
        # closure variables of enclosing functions: treat as parameters of the enclosing scope
        p = fi.parent
        while p is not None:
            for q in p.params:
                q = q.lstrip("*")
                if q not in self.env:
                    self.env[q] = {Ref(q)}
                    self.types.setdefault(q, set(eng.classes(PARAM_ROLE.get(q, []))))
                    if p.cls is not None and q == (p.params[0] if p.params else None) and p.kind != "staticmethod":
                        self.types[q] = {p.cls}
            p = p.parent

    def _ann_types(self, ann):
        out = set()
        for n in ast.walk(ann):
            name = None
            if isinstance(n, ast.Name):
                name = n.id
            elif isinstance(n, ast.Constant) and isinstance(n.value, str):
                name = n.value.strip("'\"")
            elif isinstance(n, ast.Attribute):
                r = self.ix.resolve_expr(self.mod, n)
                if isinstance(r, ClassInfo):
                    out.add(r)
                continue
            if name:
                r = self.ix.resolve_name(self.mod, name)
                if isinstance(r, ClassInfo):
                    out.add(r)
                elif name in self.ix.classes_by_name and len(self.ix.classes_by_name[name]) == 1 and name[0].isupper():
                    out.add(self.ix.classes_by_name[name][0])
        return out

    # ------------------------------------------------------------------ driver
    def run(self):
        body = self.fi.node.body
        for _ in range(2):  # flow-insensitive: two passes reach the local fixed point for straight-line + simple loops
            before = (self.s.size(), sum(len(v) for v in self.env.values()))
            for st in body:
                self.stmt(st)
            after = (self.s.size(), sum(len(v) for v in self.env.values()))
            if before == after:
                break
        if not self.flow_sensitive:
            return self.s
        # second phase: re-analyse statement by statement with the aliases restricted to the definitions that reach
        # each statement (strong updates for plain rebinding); the flow-insensitive result is the fallback environment
        try:
            from .cfg import CFG, own_exprs, reaching_defs

            cfg = CFG(self.fi.node, exceptions=False)
            rd = reaching_defs(cfg)
        except RecursionError:
            return self.s
        self._base_env = dict(self.env)
        self._base_types = dict(self.types)
        coarse = self.s
        self.s = Summary()
        self.s.calls = coarse.calls
        for n in sorted(cfg.stmt):
            st = cfg.stmt[n]
            kind = cfg.kind[n]
            if st is None or kind == "join":
                continue
            self.env, self.types = self.env_at(cfg, rd, n)
            if kind == "stmt":
                self.stmt(st)
            elif kind == "for":
                refs, types = self.expr_t(st.iter)
                self.read(refs)
            elif kind == "with":
                for item in st.items:
                    self.use(self.expr(item.context_expr))
            else:
                for e in own_exprs(st):
                    if isinstance(e, ast.expr):
                        self.use(self.expr(e))
        self.env, self.types = self._base_env, self._base_types
        return self.s

    flow_sensitive = True

    # ------------------------------------------------------------------ recording
    def _immutable_global(self, root):
        """module constants bound to numbers / strings / tuples of those cannot be written through"""
        dotted = root[len("GLOBAL:"):]
        mod, _, name = dotted.rpartition(".")
        m = self.ix.modules.get(mod)
        if m is None or name not in m.constants:
            return False
        for st in m.constants[name]:
            v = getattr(st, "value", None)
            if isinstance(v, ast.Constant):
                continue
            if isinstance(v, ast.Tuple) and all(isinstance(x, ast.Constant) for x in v.elts):
                continue
            if isinstance(v, (ast.BinOp, ast.UnaryOp)) and all(isinstance(x, (ast.Constant, ast.BinOp, ast.UnaryOp, ast.operator, ast.unaryop))
                                                              for x in ast.walk(v)):
                continue
            return False
        return True

    def canon(self, r):
        """a path that entered through an untyped alias (`np.asanyarray(mesh).vertices`) is re-resolved against the
        known classes of its root: a property step is replaced by what the getter returns"""
        if not r.path or r.root not in self.types or not self.types[r.root]:
            return [r]
        out = []
        for c in self.types[r.root]:
            g = self.ix.member(c, r.path[0]).get("getter")
            if g is None or not g.params:
                continue
            sub = self.eng.summary(g, c)
            for rr in sub.ret:
                if rr.root == g.params[0]:
                    out.append(Ref(r.root, rr.path + r.path[1:]))
        return out or [r]

    def read(self, refs, tag="value"):
        for r0 in refs:
            if r0.root in (FRESH, UNKNOWN):
                continue
            for r in self.canon(r0.bare()):
                self.s.reads.add((r.root, self.eng.normalise(r.path), tag))

    def write(self, refs, kind, node, lazy=False):
        for r0 in refs:
            if r0.root in (FRESH,) or r0.held:
                continue
            if r0.root.startswith("GLOBAL:") and self._immutable_global(r0.root):
                continue
            r = self.canon(r0)[0]
            path = self.eng.normalise(r.path)
            k = kind
            if "_cache" in path:
                k = "memo"
            key = (r.root, path, k)
            self.s.writes.add(key)
            if k == "memo" and not lazy:
                self.s.explicit_memo.add((r.root, path))
            if key not in self.s.sites and node is not None:
                self.s.sites[key] = (getattr(node, "lineno", 0), ast.unparse(node)[:100] if isinstance(node, ast.AST) else str(node))

    def effect(self, e, node):
        self.s.effects.add(e)
        self.s.effect_sites.setdefault(e, (f"{self.mod.rel}:{getattr(node, 'lineno', 0)} {self.fi.qualname}", ast.unparse(node)[:80]))

    # ------------------------------------------------------------------ statements
    def stmt(self, st):
        if isinstance(st, (ast.FunctionDef, ast.AsyncFunctionDef, ast.ClassDef, ast.Import, ast.ImportFrom, ast.Pass,
                           ast.Global, ast.Nonlocal, ast.Break, ast.Continue)):
            return
        if isinstance(st, ast.Expr):
            self.use(self.expr(st.value))
            return
        if isinstance(st, ast.Assign):
            refs, types = self.expr_t(st.value)
            for t in st.targets:
                self.assign(t, refs, types, st)
            return
        if isinstance(st, ast.AnnAssign):
            if st.value is not None:
                refs, types = self.expr_t(st.value)
                self.assign(st.target, refs, types, st)
            return
        if isinstance(st, ast.AugAssign):
            vrefs = self.expr(st.value)
            self.read(vrefs)
            t = st.target
            if isinstance(t, ast.Name):
                cur = self.env.get(t.id, set())
                self.read(cur)
                self.write([r for r in cur if r.path], "inplace", st)
            else:
                base = self.lvalue_refs(t, st, aug=True)
            return
        if isinstance(st, ast.Return):
            if st.value is not None:
                refs, types = self.expr_t(st.value)
                self.read(refs)
                self.s.ret |= set(refs) if refs else {Ref(FRESH)}
                self.s.ret_types |= types
            return
        if isinstance(st, ast.Delete):
            for t in st.targets:
                if isinstance(t, ast.Subscript):
                    base = self.expr(t.value)
                    k = _const_key(t.slice)
                    self.write([r.ext(k or "[*]") for r in base], "rebind", st)
                elif isinstance(t, ast.Attribute):
                    self.write([r.ext(t.attr) for r in self.expr(t.value)], "rebind", st)
            return
        if isinstance(st, (ast.If, ast.While)):
            self.use(self.expr(st.test))
            for b in st.body + st.orelse:
                self.stmt(b)
            return
        if isinstance(st, (ast.For, ast.AsyncFor)):
            refs, types = self.expr_t(st.iter)
            self.read(refs)
            self.bind_loop(st.target, st.iter, refs, types, st)
            for b in st.body + st.orelse:
                self.stmt(b)
            return
        if isinstance(st, (ast.With, ast.AsyncWith)):
            for item in st.items:
                refs, types = self.expr_t(item.context_expr)
                if item.optional_vars is not None:
                    self.assign(item.optional_vars, refs, types, st)
            for b in st.body:
                self.stmt(b)
            return
        if isinstance(st, ast.Try):
            for b in st.body + st.orelse + st.finalbody:
                self.stmt(b)
            for h in st.handlers:
                for b in h.body:
                    self.stmt(b)
            return
        if isinstance(st, ast.Raise):
            if st.exc is not None:
                self.use(self.expr(st.exc))
            return
        if isinstance(st, ast.Assert):
            self.use(self.expr(st.test))
            return
        if isinstance(st, ast.Match):
            self.use(self.expr(st.subject))
            for c in st.cases:
                for b in c.body:
                    self.stmt(b)

    def use(self, refs):
        self.read(refs)

    def _elem_types(self, iter_expr, types):
        # `for e in self.entities` / `.values()` of geometry
        txt = ast.unparse(iter_expr)
        for k, names in ELEMENT_ROLE.items():
            if txt.endswith("." + k) or txt.endswith(f".{k}.values()") or txt.endswith(f".{k})") or txt.endswith(f".{k}.items()") \
                    or txt in (k, f"{k}.values()", f"{k}.items()"):
                return set(self.eng.classes(names))
        return set()

    def bind_loop(self, target, it, refs, types, node):
        """loop / comprehension target binding: dict keys, enumerate counters are fresh; zip() pairs up its arguments"""
        def elems(rs):
            return {r if r.fresh else (r.unhold() if r.held else r.ext("[*]")) for r in rs}

        if isinstance(target, (ast.Tuple, ast.List)) and isinstance(it, ast.Call):
            fn = it.func.attr if isinstance(it.func, ast.Attribute) else getattr(it.func, "id", "")
            if fn == "items" and len(target.elts) == 2 and isinstance(it.func, ast.Attribute):
                self.assign(target.elts[0], {Ref(FRESH)}, set(), node, loopvar=True)
                self.assign(target.elts[1], elems(refs), self._elem_types(it, types), node, loopvar=True)
                return
            if fn == "enumerate" and len(target.elts) == 2 and it.args:
                r0, t0 = self.expr_t(it.args[0])
                self.assign(target.elts[0], {Ref(FRESH)}, set(), node, loopvar=True)
                self.bind_loop(target.elts[1], it.args[0], r0, t0, node)
                return
            if fn == "zip" and len(target.elts) == len(it.args):
                for t, a in zip(target.elts, it.args):
                    ra, ta = self.expr_t(a)
                    self.bind_loop(t, a, ra, ta, node)
                return
        if isinstance(it, ast.Call) and isinstance(it.func, ast.Attribute) and it.func.attr == "keys":
            self.assign(target, {Ref(FRESH)}, set(), node, loopvar=True)
            return
        if isinstance(it, ast.Call) and getattr(it.func, "id", "") == "range":
            self.assign(target, {Ref(FRESH)}, set(), node, loopvar=True)
            return
        self.assign(target, elems(refs), self._elem_types(it, types), node, loopvar=True)

    def assign(self, target, refs, types, node, loopvar=False):
        if isinstance(target, ast.Name):
            self.env.setdefault(target.id, set())
            self.env[target.id] |= set(refs) if refs else {Ref(FRESH)}
            self.types.setdefault(target.id, set())
            self.types[target.id] |= types
            return
        if isinstance(target, (ast.Tuple, ast.List)):
            for t in target.elts:
                if isinstance(t, ast.Starred):
                    t = t.value
                self.assign(t, refs, set(), node, loopvar)
            return
        if isinstance(target, (ast.Attribute, ast.Subscript)):
            self.read(refs)
            self.lvalue_refs(target, node, value_refs=refs, value_types=types)

    def lvalue_refs(self, target, node, value_refs=(), value_types=(), aug=False):
        """perform a store through an Attribute / Subscript target"""
        if isinstance(target, ast.Attribute):
            base, btypes = self.expr_t(target.value)
            # property setter?
            handled = False
            for c in btypes:
                mem = self.ix.member(c, target.attr)
                if mem.get("setter") is not None:
                    handled = True
                    self.apply_call(mem["setter"], c, [base, value_refs], {}, node, recv_types={c})
                elif mem.get("getter") is not None and mem.get("setter") is None:
                    handled = True  # read-only property: the store raises at run time
                if c.methods.get("__setattr__") is not None and target.attr not in ("_data", "_defaults", "_mutable", "_parent"):
                    # PrimitiveAttributes style: parameter store lands in the shared DataStore
                    handled = True
                    self.write([r.ext("_data").ext(f"[{target.attr}]") for r in base], "rebind", node)
            if aug:
                self.read([r.ext(target.attr) for r in base])
            if not handled:
                self.write([r.ext(target.attr) for r in base if not r.held], "inplace" if aug else "rebind", node)
            return
        if isinstance(target, ast.Subscript):
            base, btypes = self.expr_t(target.value)
            self.read(self.expr(target.slice))
            key = _const_key(target.slice)
            last = lambda r: (self.eng.normalise(r.path)[-1] if r.path else None)  # noqa
            out = []
            for r in base:
                if r.root == FRESH or r.held:
                    continue  # a store into the container itself, not into something it merely holds
                lp = last(r)
                if (key is not None and isinstance(target.slice.value, str)) or lp in DICT_STEPS:
                    self.write([r.ext(key or "[*]")], "inplace" if aug else "rebind", node)
                else:
                    self.write([r], "inplace", node)
            if aug:
                self.read(base)
            return

    # ------------------------------------------------------------------ expressions
    def expr(self, e):
        return self.expr_t(e)[0]

    def expr_t(self, e):
        """-> (set of Ref, set of ClassInfo)"""
        if e is None:
            return set(), set()
        if isinstance(e, ast.Constant):
            return set(), set()
        if isinstance(e, ast.Name):
            if e.id in self.env:
                return set(self.env[e.id]), set(self.types.get(e.id, ()))
            r = self.ix.resolve_name(self.mod, e.id)
            if isinstance(r, tuple) and r[0] == "const":
                return {Ref(f"GLOBAL:{r[1].name}.{r[2]}")}, set()
            return set(), set()
        if isinstance(e, ast.Attribute):
            return self.attribute(e)
        if isinstance(e, ast.Subscript):
            base, btypes = self.expr_t(e.value)
            self.read(self.expr(e.slice))
            key = _const_key(e.slice)
            out = set()
            for r in base:
                if r.fresh:
                    out.add(r)
                    continue
                if r.held:
                    out.add(r.unhold())
                    continue
                lp = self.eng.normalise(r.path)[-1] if r.path else None
                if key is not None and (isinstance(e.slice.value, str) or lp in DICT_STEPS):
                    out.add(r.ext(key))
                elif lp in DICT_STEPS or lp in COLLECTION_STEPS:
                    out.add(r.ext("[*]"))
                else:
                    out.add(r)  # array element / slice: a view of the same storage
            types = set()
            if isinstance(e.value, ast.Attribute) and e.value.attr in ELEMENT_ROLE:
                types = set(self.eng.classes(ELEMENT_ROLE[e.value.attr]))
            if isinstance(e.value, ast.Name) and e.value.id in ELEMENT_ROLE:
                types = set(self.eng.classes(ELEMENT_ROLE[e.value.id]))
            return out, types
        if isinstance(e, ast.Call):
            return self.call(e)
        if isinstance(e, (ast.Tuple, ast.List, ast.Set)):
            out = {Ref(FRESH)}
            for x in e.elts:
                out |= {r.hold() for r in self.expr(x.value if isinstance(x, ast.Starred) else x)}
            return out, set()
        if isinstance(e, ast.Dict):
            out = {Ref(FRESH)}
            for k, v in zip(e.keys, e.values):
                if k is not None:
                    self.use(self.expr(k))
                out |= {r.hold() for r in self.expr(v)}
            return out, set()
        if isinstance(e, (ast.ListComp, ast.SetComp, ast.GeneratorExp, ast.DictComp)):
            for g in e.generators:
                refs, types = self.expr_t(g.iter)
                self.read(refs)
                self.bind_loop(g.target, g.iter, refs, types, e)
                for c in g.ifs:
                    self.use(self.expr(c))
            out = {Ref(FRESH)}
            if isinstance(e, ast.DictComp):
                self.use(self.expr(e.key))
                out |= {r.hold() for r in self.expr(e.value)}
            else:
                out |= {r.hold() for r in self.expr(e.elt)}
            return out, set()
        if isinstance(e, ast.IfExp):
            self.use(self.expr(e.test))
            a, ta = self.expr_t(e.body)
            b, tb = self.expr_t(e.orelse)
            return a | b, ta | tb
        if isinstance(e, ast.BoolOp):
            out, ts = set(), set()
            for v in e.values:
                r, t = self.expr_t(v)
                self.read(r)
                out |= r
                ts |= t
            return out, ts
        if isinstance(e, (ast.BinOp,)):
            self.use(self.expr(e.left))
            self.use(self.expr(e.right))
            return {Ref(FRESH)}, set()
        if isinstance(e, ast.UnaryOp):
            self.use(self.expr(e.operand))
            return {Ref(FRESH)}, set()
        if isinstance(e, ast.Compare):
            self.use(self.expr(e.left))
            for o, c in zip(e.ops, e.comparators):
                if isinstance(o, (ast.In, ast.NotIn)):
                    self.read(self.expr(c), "shape")
                elif isinstance(o, (ast.Is, ast.IsNot)) and isinstance(c, ast.Constant) and c.value is None:
                    pass
                else:
                    self.use(self.expr(c))
            return {Ref(FRESH)}, set()
        if isinstance(e, ast.JoinedStr):
            for v in e.values:
                if isinstance(v, ast.FormattedValue):
                    self.use(self.expr(v.value))
            return {Ref(FRESH)}, set()
        if isinstance(e, ast.Starred):
            return self.expr_t(e.value)
        if isinstance(e, ast.Lambda):
            return {Ref(FRESH)}, set()
        if isinstance(e, ast.NamedExpr):
            r, t = self.expr_t(e.value)
            self.assign(e.target, r, t, e)
            return r, t
        if isinstance(e, (ast.Await, ast.Yield, ast.YieldFrom)):
            v = getattr(e, "value", None)
            if v is not None:
                r, t = self.expr_t(v)
                self.read(r)
                self.s.ret |= r
                return r, t
            return set(), set()
        if isinstance(e, ast.Slice):
            for x in (e.lower, e.upper, e.step):
                if x is not None:
                    self.use(self.expr(x))
            return set(), set()
        return set(), set()

    def attribute(self, e):
        base, btypes = self.expr_t(e.value)
        attr = e.attr
        if attr in SHAPE_ATTRS:
            self.read(base, "shape")
            return {Ref(FRESH)}, set()
        # module attribute (np.pi, util.x): no state
        if isinstance(e.value, ast.Name) and e.value.id not in self.env:
            r = self.ix.resolve_expr(self.mod, e)
            if isinstance(r, tuple) and r[0] == "const":
                return {Ref(f"GLOBAL:{r[1].name}.{r[2]}")}, set()
            return set(), set()
        out, types = set(), set()
        handled_all = bool(btypes)
        for c in btypes:
            mem = self.ix.member(c, attr)
            g = mem.get("getter")
            if g is not None:
                sub = self.eng.summary(g, c)
                self._apply(sub, {g.params[0]: base} if g.params else {}, e, is_getter=True, getter=g, recv=base)
                for r in sub.ret:
                    out |= self._subst_ref(r, {g.params[0]: base} if g.params else {})
                types |= sub.ret_types
                if g.kind == "cached":
                    self.write([r.ext("_cache").ext(f"[{attr}]") for r in base], "memo", e, lazy=True)
                    self.read([r.ext("_cache").ext(f"[{attr}]") for r in base])
                types |= self._attr_types(attr, c)
            elif c.methods.get("__getattr__") is not None and mem.get("method") is None and not mem.get("attr") \
                    and not attr.startswith("_"):
                # PrimitiveAttributes: parameters live in the (shared) DataStore
                out |= {r.ext("_data").ext(f"[{attr}]") for r in base}
            elif mem.get("method") is not None:
                out |= {r.ext(attr) for r in base}
            else:
                out |= {r.ext(attr) for r in base}
                types |= self._attr_types(attr, c)
        if not btypes:
            if attr in ALIAS_ATTRS:
                return set(base), set()
            out |= {r.ext(attr) if not r.fresh else r for r in base}
            types |= self._attr_types(attr, None)
        return out, types

    def _attr_types(self, attr, cls):
        if cls is not None and f"{attr}@{cls.name}" in ATTR_ROLE:
            return set(self.eng.classes(ATTR_ROLE[f"{attr}@{cls.name}"]))
        if attr in ATTR_ROLE:
            return set(self.eng.classes(ATTR_ROLE[attr]))
        return set()

    # ------------------------------------------------------------------ calls
    def _subst_ref(self, r, binding):
        if r.root in binding:
            out = set()
            for b in binding[r.root]:
                if b.held and r.path:
                    continue  # a field of the callee's parameter: the container we passed has no such field of the element
                out.add(b if (b.fresh or b.root == UNKNOWN) else Ref(b.root, b.path + r.path, b.held or r.held))
            return out
        if r.root in (FRESH, UNKNOWN) or r.root.startswith("GLOBAL:"):
            return {r}
        return set()  # rooted at a callee parameter that is not bound here (default value): nothing of ours

    def env_at(self, cfg, rd_in, n):
        """local alias environment at CFG node n, restricted to the definitions that reach it (strong updates for plain
        rebinding such as `x = x.copy()`); names without a reaching definition keep their flow-insensitive aliases"""
        base = self._base_env if hasattr(self, "_base_env") else self.env
        env = dict(base)
        tenv = dict(self._base_types if hasattr(self, "_base_types") else self.types)
        by_name = {}
        for (x, d) in rd_in.get(n, ()):
            by_name.setdefault(x, set()).add(d)
        saved_env, saved_types, saved_s = self.env, self.types, self.s
        self.env, self.types = base, (self._base_types if hasattr(self, "_base_types") else self.types)
        self.s = Summary()
        try:
            for x, defs in by_name.items():
                if x not in base:
                    continue
                refs, types = set(), set()
                precise = True
                for d in defs:
                    if d == cfg.entry:
                        refs.add(Ref(x))
                        types |= set(self.types.get(x, ()))
                        continue
                    st = cfg.stmt[d]
                    if cfg.kind[d] == "stmt" and isinstance(st, ast.Assign) and len(st.targets) == 1 and isinstance(st.targets[0], ast.Name) \
                            and st.targets[0].id == x:
                        r, t = self.expr_t(st.value)
                        refs |= set(r) if r else {Ref(FRESH)}
                        types |= t
                    else:
                        precise = False
                        break
                if precise and refs:
                    env[x] = refs
                    if types:
                        tenv[x] = types
        finally:
            self.env, self.types, self.s = saved_env, saved_types, saved_s
        return env, tenv

    shallow = False  # when set, effects of in-repo callees are not merged in (only this function's own statements count)

    def _apply(self, sub, binding, node, is_getter=False, getter=None, recv=()):
        if self.shallow and not is_getter:
            return
        lazy_default = is_getter and getter is not None and f"{getter.module.name}:{getter.qualname}" in LAZY_GETTERS
        lazy = {(r.root, r.path) for r in sub.ret} if is_getter else set()
        for (root, path, tag) in sub.reads:
            if tag == "value" and (root, path) in lazy:
                continue  # the returned storage itself: read where (and how) the caller uses it
            for r in self._subst_ref(Ref(root, path), binding):
                self.read([r], tag)
        for (root, path, kind) in sub.writes:
            if lazy_default and kind != "memo":
                continue
            for r in self._subst_ref(Ref(root, path), binding):
                if r.root in (FRESH,) or r.held:
                    continue
                p = self.eng.normalise(r.path)
                k = "memo" if "_cache" in p else kind
                key = (r.root, p, k)
                self.s.writes.add(key)
                if k == "memo" and (root, path) in sub.explicit_memo:
                    self.s.explicit_memo.add((r.root, p))
                if key not in self.s.sites:
                    self.s.sites[key] = (getattr(node, "lineno", 0), ast.unparse(node)[:100])
        for ef in sub.effects:
            self.s.effects.add(ef)
            if ef not in self.s.effect_sites:
                self.s.effect_sites[ef] = sub.effect_sites.get(ef, ("?", "?"))

    def apply_call(self, fi, self_cls, arg_refs, kw_refs, node, recv_types=None, arg_types=None, kw_types=None):
        """arg_refs: list of ref-sets positionally aligned with fi.params (receiver first for methods)"""
        params = [p.lstrip("*") for p in fi.params]
        pt = {}
        for p, t in zip(params, arg_types or []):
            if t:
                pt[p] = frozenset(t)
        for k, t in (kw_types or {}).items():
            if t and k in params:
                pt[k] = frozenset(t)
        if self_cls is not None and params:
            pt.pop(params[0], None)
        sub = self.eng.summary(fi, self_cls, frozenset(pt.items()))
        self.s.calls.add((fi, self_cls))
        binding = {}
        for p, a in zip(params, arg_refs):
            binding[p] = set(a)
        for k, a in kw_refs.items():
            if k in params:
                binding[k] = set(a)
        # *args / **kwargs catch-alls: anything extra flows in
        self._apply(sub, binding, node)
        out = set()
        for r in sub.ret:
            out |= self._subst_ref(r, binding)
        return out, set(sub.ret_types)

    def call(self, e):
        self.eng.stats["call_sites"] += 1
        f = e.func
        args = [self.expr_t(a.value if isinstance(a, ast.Starred) else a) for a in e.args]
        kws = {k.arg: self.expr_t(k.value) for k in e.keywords if k.arg}
        for k in e.keywords:
            if k.arg is None:
                self.use(self.expr(k.value))
        arg_refs = [a[0] for a in args]
        kw_refs = {k: v[0] for k, v in kws.items()}
        arg_types = [a[1] for a in args]
        kw_types = {k: v[1] for k, v in kws.items()}
        fname = f.attr if isinstance(f, ast.Attribute) else getattr(f, "id", None)
        if fname == "len" and isinstance(f, ast.Name) and "len" not in self.env and len(arg_refs) == 1:
            self.read(arg_refs[0], "shape")
            self.eng.stats["external"] += 1
            return {Ref(FRESH)}, set()
        # out= writes
        if "out" in kw_refs:
            self.write([r for r in kw_refs["out"] if r.path], "inplace", e)

        # ---- method call on a value
        if isinstance(f, ast.Attribute) and not self._is_module_expr(f.value):
            recv, rtypes = self.expr_t(f.value)
            # super().m(...)
            if isinstance(f.value, ast.Call) and getattr(f.value.func, "id", "") == "super" and self.fi.cls is not None:
                cls = self.self_cls or self.fi.cls
                mro = cls.mro
                start = mro.index(self.fi.cls) + 1 if self.fi.cls in mro else 1
                for k in mro[start:]:
                    m = k.methods.get(fname)
                    if m is not None:
                        self.eng.stats["resolved"] += 1
                        return self.apply_call(m, cls, [self.env.get(self.selfname, set())] + arg_refs, kw_refs, e)
                self.eng.stats["external"] += 1
                return {Ref(FRESH)}, set()
            targets = []
            for c in rtypes:
                mem = self.ix.member(c, fname)
                if mem.get("method") is not None:
                    targets.append((mem["method"], c))
                    for sc in self.ix.all_subclasses(c):
                        if fname in sc.methods and (self.self_cls is None or c is not self.self_cls):
                            targets.append((sc.methods[fname], sc))
            if targets:
                self.eng.stats["resolved"] += 1
                out, ts = set(), set()
                seen = set()
                for m, c in targets:
                    if (m, c) in seen:
                        continue
                    seen.add((m, c))
                    if m.kind == "staticmethod":
                        r, t = self.apply_call(m, None, arg_refs, kw_refs, e, arg_types=arg_types, kw_types=kw_types)
                    else:
                        r, t = self.apply_call(m, c, [recv] + arg_refs, kw_refs, e, arg_types=[set()] + arg_types, kw_types=kw_types)
                    out |= r
                    ts |= t
                    if m.name == "copy" and not t:
                        ts |= {c}
                return out, ts
            # not an in-repo method of a known class
            for a in arg_refs:
                self.read(a)
            for a in kw_refs.values():
                self.read(a)
            if fname in MUTATING_METHODS:
                self.read(recv)
                self.write([r for r in recv if r.path or r.root in self.params], "inplace", e)
                self.eng.stats["external"] += 1
                if fname in ("pop", "setdefault"):
                    return {(r.unhold() if r.held else r.ext("[*]")) if not r.fresh else r for r in recv}, set()
                return {Ref(FRESH)}, set()
            if not rtypes and recv and any(not r.fresh for r in recv):
                # unknown receiver type: try name-based CHA when exactly one class family defines the method
                cands = [c for cs in self.ix.classes_by_name.values() for c in cs if fname in c.methods]
                if 0 < len(cands) <= 3 and fname not in FRESH_FUNCS and fname not in ALIAS_FUNCS and not fname.startswith("__"):
                    self.eng.stats["resolved"] += 1
                    out, ts = set(), set()
                    for c in cands:
                        r, t = self.apply_call(c.methods[fname], c, [recv] + arg_refs, kw_refs, e)
                        out |= r
                        ts |= t
                    return out, ts
            self.eng.stats["external"] += 1
            if fname in SHAPE_ATTRS:
                self.read(recv, "shape")
                return {Ref(FRESH)}, set()
            self.read(recv)
            if fname in ALIAS_FUNCS:
                if fname in ("get", "pop", "setdefault") and e.args and _const_key(e.args[0]) and isinstance(e.args[0].value, str):
                    return {r.ext(_const_key(e.args[0])) if not r.fresh else r for r in recv}, set()
                if fname in ("get", "pop", "setdefault"):
                    return {r.ext("[*]") if not r.fresh else r for r in recv}, set()
                return set(recv), set()
            if fname in ("values", "items", "keys", "__iter__"):
                return {r if r.fresh else r for r in recv}, set(self._elem_types(f.value, rtypes))
            if fname == "copy":
                return {Ref(FRESH)}, set(rtypes)
            return {Ref(FRESH)}, set()

        # ---- plain / module-qualified function
        target = self.ix.resolve_expr(self.mod, f) if isinstance(f, (ast.Name, ast.Attribute)) else None
        if isinstance(f, ast.Name) and f.id in self.fi.nested:
            target = self.fi.nested[f.id]
        if isinstance(f, ast.Name) and target is None:
            p = self.fi.parent
            while p is not None and target is None:
                target = p.nested.get(f.id)
                p = p.parent
        if isinstance(target, FuncInfo):
            self.eng.stats["resolved"] += 1
            return self.apply_call(target, None, arg_refs, kw_refs, e, arg_types=arg_types, kw_types=kw_types)
        if isinstance(target, ClassInfo):
            self.eng.stats["resolved"] += 1
            init = self.ix.member(target, "__init__").get("method")
            stored = set()
            if init is not None:
                sub = self.eng.summary(init, target)
                binding = {}
                params = [p.lstrip("*") for p in init.params]
                binding[params[0]] = {Ref("<new>")}
                for p, a in zip(params[1:], arg_refs):
                    binding[p] = set(a)
                for k, a in kw_refs.items():
                    if k in params:
                        binding[k] = set(a)
                # effects of the constructor on its arguments; what it stores is remembered as aliasing
                self._apply(sub, {k: v for k, v in binding.items() if k != params[0]}, e)
            else:
                for a in arg_refs:
                    self.read(a)
            return {Ref(FRESH)}, {target}
        # external
        dotted = target if isinstance(target, str) else (ast.unparse(f) if isinstance(f, (ast.Name, ast.Attribute)) else "")
        self.eng.stats["external"] += 1
        for a in arg_refs:
            self.read(a)
        for a in kw_refs.values():
            self.read(a)
        if any(dotted.startswith(p) or (".random." in dotted) for p in RANDOM_PREFIXES) or dotted.startswith("numpy.random"):
            self.effect("RANDOM", e)
        if fname in OPEN_NAMES or dotted in ("builtins.open", "zipfile.ZipFile", "tarfile.open", "io.open", "bz2.open", "gzip.open"):
            self.effect("OPENS", e)
        if dotted in EXIT_NAMES or (fname in ("exit", "_exit", "abort") and dotted.split(".")[0] in ("sys", "os")):
            self.effect("EXITS", e)
        if fname in ("getattr",) and len(e.args) >= 2 and isinstance(e.args[1], ast.Constant):
            fake = ast.Attribute(value=e.args[0], attr=e.args[1].value, ctx=ast.Load())
            ast.copy_location(fake, e)
            return self.attribute(fake)
        if fname in ("setattr",) and len(e.args) >= 3 and isinstance(e.args[1], ast.Constant):
            self.write([r.ext(e.args[1].value) for r in arg_refs[0]], "rebind", e)
            return set(), set()
        if fname in ALIAS_FUNCS and arg_refs:
            return set(arg_refs[0]), set()
        if fname in ("copyto", "put", "putmask", "place", "fill_diagonal", "put_along_axis", "shuffle") and arg_refs:
            self.write([r for r in arg_refs[0] if r.path], "inplace", e)
        return {Ref(FRESH)}, set()

    def _is_module_expr(self, e):
        """is `e` a (dotted) module reference such as np, np.linalg, util, caching"""
        base = e
        while isinstance(base, ast.Attribute):
            base = base.value
        if not isinstance(base, ast.Name) or base.id in self.env:
            return False
        r = self.ix.resolve_expr(self.mod, e)
        if isinstance(r, Module):
            return True
        if isinstance(r, str):
            return True
        if r is None and base.id in self.mod.imports:
            return True
        return False
