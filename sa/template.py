"""E7 - statement templates with metavariables ("semantic patches" in the Coccinelle sense, read-only).

A rule that wants to say "the translation is minus the centre of the min / max of the points transformed by
the very matrix that is returned" should not care what the locals are called, nor whether a log line was
inserted between two statements.  A template is a few Python statements in which

    _v_name   stands for one local variable (the same one at every occurrence),
    _e_name   stands for one arbitrary expression (structurally the same at every occurrence),
    _k_name   stands for one constant.

`find(template, fnode)` looks for statements of the function (in any nesting, in source order, with gaps) that
match the template statements one by one under a single consistent binding, and returns that binding
({meta name: source text}) or None.  Keyword arguments match regardless of order; `ctx`, positions and type
comments are ignored; aliases of numpy (`np`) are whatever the source uses.
"""
from __future__ import annotations

import ast

from .index import normalise_template_calls


class _NoMatch(Exception):
    pass


def _is_meta(name, kind):
    return name.startswith(f"_{kind}_")


def _match(t, c, env):
    """structural match of template node t against code node c, extending env (dict) or raising _NoMatch"""
    if isinstance(t, ast.Name):
        if _is_meta(t.id, "v"):
            if not isinstance(c, ast.Name):
                raise _NoMatch
            if env.setdefault(t.id, ("v", c.id)) != ("v", c.id):
                raise _NoMatch
            return
        if _is_meta(t.id, "e"):
            d = ast.dump(c)
            if env.setdefault(t.id, ("e", d, ast.unparse(c))) [1] != d:
                raise _NoMatch
            return
        if _is_meta(t.id, "k"):
            if not isinstance(c, ast.Constant):
                raise _NoMatch
            if env.setdefault(t.id, ("k", repr(c.value))) != ("k", repr(c.value)):
                raise _NoMatch
            return
        if not isinstance(c, ast.Name) or c.id != t.id:
            raise _NoMatch
        return
    if isinstance(t, ast.BinOp) and isinstance(c, ast.BinOp) and type(t.op) is type(c.op) and isinstance(t.op, (ast.Add, ast.Mult, ast.BitAnd, ast.BitOr)):
        # commutative / associative: the operands may come in any order and grouping
        tt, cc = _flat(t, type(t.op)), _flat(c, type(c.op))
        if len(tt) == len(cc) and len(tt) <= 4:
            import itertools

            for perm in itertools.permutations(cc):
                e2 = dict(env)
                try:
                    for a, b in zip(tt, perm):
                        _match(a, b, e2)
                except _NoMatch:
                    continue
                env.clear()
                env.update(e2)
                return
            raise _NoMatch
    if isinstance(t, ast.Compare) and isinstance(c, ast.Compare) and len(t.ops) == 1 and len(c.ops) == 1:
        FL = {ast.Lt: ast.Gt, ast.Gt: ast.Lt, ast.LtE: ast.GtE, ast.GtE: ast.LtE, ast.Eq: ast.Eq, ast.NotEq: ast.NotEq}
        if type(c.ops[0]) in FL and FL[type(c.ops[0])] is type(t.ops[0]):
            e2 = dict(env)
            try:
                _match(t.left, c.comparators[0], e2)
                _match(t.comparators[0], c.left, e2)
                env.clear()
                env.update(e2)
                return
            except _NoMatch:
                if type(t.ops[0]) is not type(c.ops[0]):
                    raise
    if type(t) is not type(c):
        raise _NoMatch
    if isinstance(t, ast.Constant):
        if t.value != c.value or type(t.value) is not type(c.value):
            raise _NoMatch
        return
    if isinstance(t, ast.Call):
        _match(t.func, c.func, env)
        if len(t.args) != len(c.args):
            raise _NoMatch
        for a, b in zip(t.args, c.args):
            _match(a, b, env)
        tk = {k.arg: k.value for k in t.keywords}
        ck = {k.arg: k.value for k in c.keywords}
        if set(tk) != set(ck):
            raise _NoMatch
        for k in tk:
            _match(tk[k], ck[k], env)
        return
    for fld in t._fields:
        if fld in ("ctx", "type_comment", "lineno", "col_offset", "end_lineno", "end_col_offset", "kind"):
            continue
        a, b = getattr(t, fld, None), getattr(c, fld, None)
        if isinstance(a, list):
            if not isinstance(b, list) or len(a) != len(b):
                raise _NoMatch
            for x, y in zip(a, b):
                if isinstance(x, ast.AST):
                    _match(x, y, env)
                elif x != y:
                    raise _NoMatch
        elif isinstance(a, ast.AST):
            if not isinstance(b, ast.AST):
                raise _NoMatch
            _match(a, b, env)
        elif a != b:
            raise _NoMatch


def _flat(e, op):
    if isinstance(e, ast.BinOp) and type(e.op) is op:
        return _flat(e.left, op) + _flat(e.right, op)
    return [e]


def match_expr(template, code, env=None):
    """match one expression template (text, with _v_ / _e_ / _k_ metavariables) against an expression (ast or text);
    returns the binding {meta: text} extended from env, or None.  + * & | match in any operand order, comparisons
    also mirrored."""
    t = normalise_template_calls(ast.parse(template, mode="eval")).body
    # (canonical terms carry dotted callee names as single Name nodes: re-parse to the plain spelling)
    c = ast.parse(code if isinstance(code, str) else ast.unparse(code), mode="eval").body
    e2 = {}
    for k, v in (env or {}).items():
        e2[k] = ("e", ast.dump(ast.parse(v, mode="eval").body), v) if k.startswith("_e_") else (("v", v) if k.startswith("_v_") else ("k", v))
    try:
        _match(t, c, e2)
    except _NoMatch:
        return None
    return {k: (v[1] if v[0] != "e" else v[2]) for k, v in e2.items()}


def _statements(fnode):
    """simple statements of the function in source order (not descending into nested defs)"""
    out = []

    def rec(body):
        for st in body:
            if isinstance(st, (ast.FunctionDef, ast.AsyncFunctionDef, ast.ClassDef)):
                continue
            out.append(st)
            for fld in ("body", "orelse", "finalbody"):
                rec(getattr(st, fld, []) or [])
            for h in getattr(st, "handlers", []) or []:
                rec(h.body)

    rec(fnode.body)
    return out


def find(template, fnode, ordered=True):
    """binding {meta: text} under which every template statement matches some statement of fnode, or None"""
    tstmts = normalise_template_calls(ast.parse(template)).body
    cstmts = _statements(fnode)

    def search(i, start, env):
        if i == len(tstmts):
            return env
        t = tstmts[i]
        rng = range(start, len(cstmts)) if ordered else range(len(cstmts))
        for j in rng:
            e2 = dict(env)
            try:
                _match(t, cstmts[j], e2)
            except _NoMatch:
                continue
            r = search(i + 1, j + 1 if ordered else 0, e2)
            if r is not None:
                return r
        return None

    env = search(0, 0, {})
    if env is None:
        return None
    return {k: (v[1] if v[0] != "e" else v[2]) for k, v in env.items()}


def find_all(template, fnode):
    """every binding for a single-statement template"""
    tstmts = normalise_template_calls(ast.parse(template)).body
    assert len(tstmts) == 1
    out = []
    for c in _statements(fnode):
        env = {}
        try:
            _match(tstmts[0], c, env)
        except _NoMatch:
            continue
        out.append(({k: (v[1] if v[0] != "e" else v[2]) for k, v in env.items()}, c))
    return out
