"""./check <Cnn> [--tier quick|thorough] [--repo DIR] [--replay FILE]"""
from __future__ import annotations

import argparse
import importlib
import json
import os
import sys

from .report import AnalysisError, Run, main_wrapper


def main():
    ap = argparse.ArgumentParser()
    ap.add_argument("prop")
    ap.add_argument("--tier", default=os.environ.get("VERIF_TIER", "quick"), choices=["quick", "thorough"])
    ap.add_argument("--repo", default="/repo")
    ap.add_argument("--replay", default=None)
    a = ap.parse_args()
    prop = a.prop.upper()
    try:
        mod = importlib.import_module(f"sa.rules.{prop.lower()}")
    except ModuleNotFoundError as e:
        if e.name == f"sa.rules.{prop.lower()}":
            print(f"ANALYSIS-ERROR no check registered for {prop}")
            sys.exit(2)
        raise
    seed = int(os.environ.get("VERIF_SEED", "0") or 0)
    if a.replay:
        with open(a.replay) as f:
            rep = json.load(f)
        run = Run(prop, a.tier, a.repo, level=mod.LEVEL, seed=seed)
        mod.check(run)
        hit = [v for v in run.violations + run.known if v["key"] == rep["key"]]
        if hit:
            v = hit[0]
            print(f"REPLAY reproduces: [{v['rule']}] {v['where']}: {v['message']}")
            _show(a.repo, v["where"])
            print(f"VIOLATION property={prop} replay={a.replay}")
            return 1
        print(f"REPLAY: finding {rep['key']!r} is no longer reported on {a.repo}")
        return 0
    run = Run(prop, a.tier, a.repo, level=mod.LEVEL, seed=seed)
    out = mod.check(run)
    if a.tier == "thorough":
        _thorough(run, prop, a.repo)
    return run.finish(**(out or {"explanation": mod.__doc__ or prop}))


def _thorough(run, prop, repo):
    """thorough tier: the same analysis, plus the check is exercised both ways on scratch copies of the tree under
    analysis: every mutant of mutants/<cnn>.json must be reported, every benign variant must stay silent, and every
    seeded change stored under seeded/ is re-run.  Results are recorded in the evidence and printed as SELFTEST lines;
    they never change the verdict on the tree itself."""
    import concurrent.futures as cf

    from . import selftest

    variants = selftest.load(prop)
    seeded = selftest.load_seeded(prop)
    res = []
    with cf.ProcessPoolExecutor(max_workers=min(16, max(1, len(variants) + len(seeded)))) as ex:
        futs = [ex.submit(selftest.run_variant, prop, v, repo) for v in variants]
        futs += [ex.submit(selftest.run_seeded, prop, s, repo) for s in seeded]
        for fu in futs:
            try:
                res.append(fu.result())
            except Exception as e:  # noqa
                res.append({"id": "?", "kind": "harness", "status": "harness-error", "why": repr(e)})
    m = [r for r in res if r["kind"] == "mutant"]
    b = [r for r in res if r["kind"] == "benign"]
    sd = [r for r in res if r["kind"] == "seeded"]
    summary = {
        "mutants": len(m), "killed": sum(r["status"] == "killed" for r in m),
        "benign": len(b), "silent": sum(r["status"] == "silent" for r in b),
        "seeded_changes": len(sd), "seeded_caught": sum(r["status"] == "killed" for r in sd),
        "issues": [{k: r.get(k) for k in ("id", "kind", "status", "why")} for r in res
                   if r["status"] not in ("killed", "silent") and not (r["kind"] == "seeded" and r.get("expected") == "missed")],
        "seeded": [{k: r.get(k) for k in ("id", "status", "expected", "reported")} for r in sd],
    }
    run.extra["selftest"] = summary
    print(f"SELFTEST {prop}: mutants {summary['killed']}/{summary['mutants']} killed, benign {summary['silent']}/{summary['benign']} silent, "
          f"seeded changes {summary['seeded_caught']}/{summary['seeded_changes']} reported")
    for i in summary["issues"]:
        print(f"  SELFTEST-ISSUE {prop} {i['id']} [{i['kind']}] -> {i['status']} {i.get('why') or ''}")


def _show(repo, where):
    try:
        loc = where.split()[0]
        path, line = loc.rsplit(":", 1)
        line = int(line)
        with open(os.path.join(repo, path)) as f:
            lines = f.read().splitlines()
        for i in range(max(0, line - 4), min(len(lines), line + 3)):
            print(f"    {i + 1:5d} {'>' if i + 1 == line else ' '} {lines[i]}")
    except Exception:
        pass


if __name__ == "__main__":
    main_wrapper(main)
