"""./check <Cnn> [--tier quick|thorough] [--repo DIR] [--replay FILE]"""
from __future__ import annotations

import argparse
import importlib
import json
import os
import sys

from .report import AnalysisError, Run, main_wrapper


def main():
    ap = argparse.ArgumentParser()
    ap.add_argument("prop")
    ap.add_argument("--tier", default=os.environ.get("VERIF_TIER", "quick"), choices=["quick", "thorough"])
    ap.add_argument("--repo", default="/repo")
    ap.add_argument("--replay", default=None)
    a = ap.parse_args()
    prop = a.prop.upper()
    try:
        mod = importlib.import_module(f"sa.rules.{prop.lower()}")
    except ModuleNotFoundError as e:
        if e.name == f"sa.rules.{prop.lower()}":
            print(f"ANALYSIS-ERROR no check registered for {prop}")
            sys.exit(2)
        raise
    seed = int(os.environ.get("VERIF_SEED", "0") or 0)
    if a.replay:
        with open(a.replay) as f:
            rep = json.load(f)
        run = Run(prop, a.tier, a.repo, level=mod.LEVEL, seed=seed)
        mod.check(run)
        hit = [v for v in run.violations + run.known if v["key"] == rep["key"]]
        if hit:
            v = hit[0]
            print(f"REPLAY reproduces: [{v['rule']}] {v['where']}: {v['message']}")
            _show(a.repo, v["where"])
            print(f"VIOLATION property={prop} replay={a.replay}")
            return 1
        print(f"REPLAY: finding {rep['key']!r} is no longer reported on {a.repo}")
        return 0
    run = Run(prop, a.tier, a.repo, level=mod.LEVEL, seed=seed)
    err = None
    try:
        out = mod.check(run)
    except AnalysisError as e:
        out, err = None, e
    if (run.violations or err is not None) and not os.environ.get("VERIF_NO_VIEWS"):
        run, out, err = _second_opinion(mod, prop, a, seed, run, out, err)
    if err is not None:
        raise err
    if a.tier == "thorough":
        _thorough(run, prop, a.repo)
    return run.finish(**(out or {"explanation": mod.__doc__ or prop}))


def _second_opinion(mod, prop, a, seed, run, out, err):
    """Re-decide what was found on normal forms of the same tree (sa/normalize.py).

    A finding of rule R at function F on the source as written stands unless a view - the tree with private helpers
    inlined and / or single-use locals folded, rewrites that keep behaviour - is analysed without error, evaluates at
    least as many instances of R, and reports neither that finding (same key) nor any finding of R at F.  An analysis error on the source as written is replaced by the verdict
    of the first view that can be analysed.  Nothing is ever added to a clean verdict."""
    import shutil

    from . import normalize

    notes = []
    for passes in normalize.VIEWS:
        if not run.violations and err is None:
            break
        try:
            vdir, st = normalize.build_view(a.repo, passes)
        except Exception as e:  # noqa - a view that cannot be built decides nothing
            notes.append({"passes": list(passes), "status": f"not built: {type(e).__name__}: {e}"})
            continue
        try:
            if not st["modules_rewritten"]:
                notes.append({**st, "status": "identical to the source as written"})
                continue
            r2 = Run(prop, a.tier, vdir, level=mod.LEVEL, seed=seed)
            try:
                out2 = mod.check(r2)
            except Exception as e:  # noqa
                notes.append({**st, "status": f"view not analysable: {type(e).__name__}: {str(e)[:200]}"})
                continue
            if err is not None:
                # the source as written could not be analysed; this normal form can: its verdict is the verdict
                for v in r2.violations + r2.known:
                    v["where"] = normalize.remap_where(vdir, v["where"])
                    v["message"] += " [decided on the " + "+".join(passes) + " normal form: the source as written could not be analysed: " + str(err)[:160] + "]"
                r2.repo = run.repo
                r2.extra["normal_forms"] = notes + [{**st, "status": "adopted: the source as written was not analysable"}]
                r2.assume("verdict taken on the " + "+".join(passes) + " normal form of the tree (private helpers inlined / single-use locals folded)")
                r2.t0 = run.t0
                run, out, err = r2, out2, None
                notes = r2.extra["normal_forms"]
                continue
            n1, n2 = {}, {}
            # only instances the rule DECIDED count: a view in which the rule records "shape not recognised - not decided"
            # (nontrivial=False) has lost sight of the construct and clears nothing
            for i in run.instances:
                if i.get("nontrivial", True):
                    n1[i["rule"]] = n1.get(i["rule"], 0) + 1
            for i in r2.instances:
                if i.get("nontrivial", True):
                    n2[i["rule"]] = n2.get(i["rule"], 0) + 1
            def qual(w):
                return w.split(" ", 1)[1] if " " in w else w

            # findings located in a helper whose every call was inlined are duplicates of what the rule says (or does not
            # say) about the same statements in the callers
            dup = set(st.get("fully_inlined", []))
            into = st.get("inlined_into", {})

            def related(q):
                out, todo = {q}, [q]
                while todo:
                    for c in into.get(todo.pop(), []):
                        if c not in out:
                            out.add(c)
                            todo.append(c)
                return out

            # ... but only when the rule does say something about those statements in a caller (as a finding or as a listed
            # known finding); a rule that is anchored on the helper itself keeps its finding there
            said = {(x["rule"], qual(x["where"])) for x in r2.violations + r2.known}

            def is_dup(v):
                q = qual(v["where"])
                return q in dup and any((v["rule"], c) in said for c in related(q) if c != q)

            v2 = [v for v in r2.violations if not is_dup(v)]
            bad2 = {(v["rule"], v["key"]) for v in v2} | {(v["rule"], qual(v["where"])) for v in v2}
            # a finding located in a helper stands when the normal form shows a finding of the same rule in any function
            # that received the helper's statements
            # the normal form must not have lost sight of anything: the rule evaluates at least as many instances as on the
            # source as written everywhere outside the functions whose statements were moved (F, what F was inlined into,
            # what was inlined into those), and still evaluates something inside them
            def family(q):
                fam = related(q)
                for h in into:
                    if related(h) & fam:
                        fam |= related(h)
                return fam

            def covered(v):
                fam = family(qual(v["where"]))
                a_out = sum(1 for i in run.instances if i["rule"] == v["rule"] and i.get("nontrivial", True) and qual(i["where"]) not in fam)
                b_out = sum(1 for i in r2.instances if i["rule"] == v["rule"] and i.get("nontrivial", True) and qual(i["where"]) not in fam)
                a_in = sum(1 for i in run.instances if i["rule"] == v["rule"] and i.get("nontrivial", True) and qual(i["where"]) in fam)
                b_in = sum(1 for i in r2.instances if i["rule"] == v["rule"] and i.get("nontrivial", True) and qual(i["where"]) in fam)
                return b_out >= a_out and (b_in > 0 or a_in == 0)

            dropped = [v for v in run.violations if (v["rule"], v["key"]) not in bad2
                       and not any((v["rule"], q) in bad2 for q in related(qual(v["where"])))
                       and (n2.get(v["rule"], 0) >= n1.get(v["rule"], 0) or covered(v))]
            cleared = sorted({v["rule"] for v in dropped})
            if cleared:
                run.violations = [v for v in run.violations if v not in dropped]
                # a listed known finding that the normal form shows at its usual place is still announced
                for k in r2.known:
                    if k["rule"] in cleared and not any(x["key"] == k["key"] for x in run.known):
                        k["where"] = normalize.remap_where(vdir, k["where"])
                        run.known.append(k)
                run.assume(f"rule(s) {cleared}: shape not recognised in the source as written, decided on the {'+'.join(passes)} normal form")
                notes.append({**{k: v for k, v in st.items() if k not in ("inlined_into", "fully_inlined")}, "status": f"cleared {cleared}", "cleared": [{k: v[k] for k in ('rule', 'where', 'message')} for v in dropped]})
            else:
                notes.append({**{k: v for k, v in st.items() if k not in ("inlined_into", "fully_inlined")}, "status": "same findings"})
        finally:
            shutil.rmtree(vdir, ignore_errors=True)
    run.extra["normal_forms"] = notes
    return run, out, err


def _thorough(run, prop, repo):
    """thorough tier: the same analysis, plus the check is exercised both ways on scratch copies of the tree under
    analysis: every mutant of mutants/<cnn>.json must be reported, every benign variant must stay silent, and every
    seeded change stored under seeded/ is re-run.  Results are recorded in the evidence and printed as SELFTEST lines;
    they never change the verdict on the tree itself."""
    import concurrent.futures as cf

    from . import selftest

    variants = selftest.load(prop)
    seeded = selftest.load_seeded(prop)
    refactors = selftest.load_benign_corpus(prop)
    res = []
    with cf.ProcessPoolExecutor(max_workers=min(16, max(1, len(variants) + len(seeded) + len(refactors)))) as ex:
        futs = [ex.submit(selftest.run_variant, prop, v, repo) for v in variants]
        futs += [ex.submit(selftest.run_seeded, prop, s, repo) for s in seeded]
        futs += [ex.submit(selftest.run_benign_corpus, prop, b, repo) for b in refactors]
        for fu in futs:
            try:
                res.append(fu.result())
            except Exception as e:  # noqa
                res.append({"id": "?", "kind": "harness", "status": "harness-error", "why": repr(e)})
    m = [r for r in res if r["kind"] == "mutant"]
    b = [r for r in res if r["kind"] == "benign"]
    sd = [r for r in res if r["kind"] == "seeded"]
    rf = [r for r in res if r["kind"] == "refactor"]
    summary = {
        "refactors": len(rf), "refactors_silent": sum(r["status"] == "silent" for r in rf),
        "mutants": len(m), "killed": sum(r["status"] == "killed" for r in m),
        "benign": len(b), "silent": sum(r["status"] == "silent" for r in b),
        "seeded_changes": len(sd), "seeded_caught": sum(r["status"] == "killed" for r in sd),
        "issues": [{k: r.get(k) for k in ("id", "kind", "status", "why")} for r in res
                   if r["status"] not in ("killed", "silent") and not (r["kind"] == "seeded" and r.get("expected") == "missed")],
        "seeded": [{k: r.get(k) for k in ("id", "status", "expected", "reported")} for r in sd],
    }
    run.extra["selftest"] = summary
    print(f"SELFTEST {prop}: mutants {summary['killed']}/{summary['mutants']} killed, benign {summary['silent']}/{summary['benign']} silent, "
          f"seeded changes {summary['seeded_caught']}/{summary['seeded_changes']} reported, behaviour-preserving refactors {summary['refactors_silent']}/{summary['refactors']} silent")
    for i in summary["issues"]:
        print(f"  SELFTEST-ISSUE {prop} {i['id']} [{i['kind']}] -> {i['status']} {i.get('why') or ''}")


def _show(repo, where):
    try:
        loc = where.split()[0]
        path, line = loc.rsplit(":", 1)
        line = int(line)
        with open(os.path.join(repo, path)) as f:
            lines = f.read().splitlines()
        for i in range(max(0, line - 4), min(len(lines), line + 3)):
            print(f"    {i + 1:5d} {'>' if i + 1 == line else ' '} {lines[i]}")
    except Exception:
        pass


if __name__ == "__main__":
    main_wrapper(main)
