"""./check <Cnn> [--tier quick|thorough] [--repo DIR] [--replay FILE]"""
from __future__ import annotations

import argparse
import importlib
import json
import os
import sys

from .report import AnalysisError, Run, main_wrapper


def main():
    ap = argparse.ArgumentParser()
    ap.add_argument("prop")
    ap.add_argument("--tier", default=os.environ.get("VERIF_TIER", "quick"), choices=["quick", "thorough"])
    ap.add_argument("--repo", default="/repo")
    ap.add_argument("--replay", default=None)
    a = ap.parse_args()
    prop = a.prop.upper()
    try:
        mod = importlib.import_module(f"sa.rules.{prop.lower()}")
    except ModuleNotFoundError as e:
        if e.name == f"sa.rules.{prop.lower()}":
            print(f"ANALYSIS-ERROR no check registered for {prop}")
            sys.exit(2)
        raise
    seed = int(os.environ.get("VERIF_SEED", "0") or 0)
    if a.replay:
        with open(a.replay) as f:
            rep = json.load(f)
        run = Run(prop, a.tier, a.repo, level=mod.LEVEL, seed=seed)
        mod.check(run)
        hit = [v for v in run.violations + run.known if v["key"] == rep["key"]]
        if hit:
            v = hit[0]
            print(f"REPLAY reproduces: [{v['rule']}] {v['where']}: {v['message']}")
            _show(a.repo, v["where"])
            print(f"VIOLATION property={prop} replay={a.replay}")
            return 1
        print(f"REPLAY: finding {rep['key']!r} is no longer reported on {a.repo}")
        return 0
    run = Run(prop, a.tier, a.repo, level=mod.LEVEL, seed=seed)
    out = mod.check(run)
    return run.finish(**(out or {"explanation": mod.__doc__ or prop}))


def _show(repo, where):
    try:
        loc = where.split()[0]
        path, line = loc.rsplit(":", 1)
        line = int(line)
        with open(os.path.join(repo, path)) as f:
            lines = f.read().splitlines()
        for i in range(max(0, line - 4), min(len(lines), line + 3)):
            print(f"    {i + 1:5d} {'>' if i + 1 == line else ' '} {lines[i]}")
    except Exception:
        pass


if __name__ == "__main__":
    main_wrapper(main)
