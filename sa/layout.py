"""Extraction of the face->edge layout tables shared by C05 and C18."""
from __future__ import annotations

import ast

from .index import const_eval
from .report import AnalysisError


def edge_columns(ix):
    """the column table of geometry.faces_to_edges as a list of (i, j) pairs,
    plus the FuncInfo and the pair width"""
    f = ix.func("trimesh.geometry:faces_to_edges")
    for st in ast.walk(f.node):
        if isinstance(st, ast.Assign) and isinstance(st.targets[0], ast.Name) and st.targets[0].id == "edges":
            v = st.value
            # faces[:, [cols]].reshape((-1, 2))
            if (isinstance(v, ast.Call) and isinstance(v.func, ast.Attribute) and v.func.attr == "reshape"
                    and isinstance(v.func.value, ast.Subscript)):
                sub = v.func.value
                sl = sub.slice
                if isinstance(sl, ast.Tuple) and len(sl.elts) == 2 and isinstance(sl.elts[0], ast.Slice):
                    try:
                        cols = const_eval(sl.elts[1])
                        shape = const_eval(v.args[0]) if len(v.args) == 1 else tuple(const_eval(a) for a in v.args)
                    except ValueError as e:
                        raise AnalysisError(f"faces_to_edges: column table is not a literal ({e})")
                    if not (isinstance(shape, tuple) and len(shape) == 2 and shape[0] == -1):
                        raise AnalysisError(f"faces_to_edges: unexpected reshape {shape}")
                    w = shape[1]
                    if len(cols) % w:
                        raise AnalysisError("faces_to_edges: column list length not a multiple of the pair width")
                    pairs = [tuple(cols[i:i + w]) for i in range(0, len(cols), w)]
                    return f, pairs, ast.unparse(sub.value)
    raise AnalysisError("anchor vanished: `edges = faces[:, [...]].reshape((-1, 2))` in geometry.faces_to_edges")


def face_index_repeat(fnode):
    """how the per-edge face index is built: returns the repeat count k when the
    expression is one of the recognised forms `tile(arange(len(faces)), (k, 1)).T.reshape(-1)`
    or `repeat(arange(len(faces)), k)`; raises AnalysisError otherwise"""
    for st in ast.walk(fnode):
        if isinstance(st, ast.Assign) and isinstance(st.targets[0], ast.Name) and st.targets[0].id == "face_index":
            txt = ast.unparse(st.value).replace(" ", "")
            import re

            m = re.fullmatch(r"np\.tile\(np\.arange\(len\((\w+)\)\),\((\d+),1\)\)\.T\.reshape\(-1\)", txt)
            if m:
                return int(m.group(2)), m.group(1), "contiguous"
            m = re.fullmatch(r"np\.repeat\(np\.arange\(len\((\w+)\)\),(\d+)\)", txt)
            if m:
                return int(m.group(2)), m.group(1), "contiguous"
            m = re.fullmatch(r"np\.tile\(np\.arange\(len\((\w+)\)\),(\d+)\)", txt)
            if m:
                return int(m.group(2)), m.group(1), "strided"
            raise AnalysisError(f"faces_to_edges: unrecognised face index construction `{txt}`")
    raise AnalysisError("anchor vanished: face_index in geometry.faces_to_edges")


def child_table(fnode, where):
    """the 12-entry child table of a subdivision function: list of 4 triangles, each a
    triple of ('v', k) (corner k of the parent) or ('m', k) (midpoint of edge k).
    Returns (table, faces_var, mid_var, mid_width)"""
    # mid variable: X = inverse.reshape((-1, W)) + len(vertices)
    mid_var = None
    width = None
    for st in ast.walk(fnode):
        if isinstance(st, ast.Assign) and isinstance(st.targets[0], ast.Name) and isinstance(st.value, ast.BinOp):
            l = st.value.left
            if (isinstance(l, ast.Call) and isinstance(l.func, ast.Attribute) and l.func.attr == "reshape" and isinstance(st.value.op, ast.Add)
                    and isinstance(l.func.value, ast.Name) and isinstance(st.value.right, ast.Call) and ast.unparse(st.value.right.func) == "len"
                    and l.args and isinstance(l.args[0], ast.Tuple)):  # `<inverse index>.reshape((-1, W)) + len(<vertices>)`, whatever the locals are called
                mid_var = st.targets[0].id
                shp = const_eval(l.args[0])
                width = shp[1]
    if mid_var is None:
        raise AnalysisError(f"{where}: anchor vanished: `<mid> = inverse.reshape((-1, 3)) + len(vertices)`")
    for st in ast.walk(fnode):
        if isinstance(st, ast.Call) and isinstance(st.func, ast.Attribute) and st.func.attr == "reshape":
            inner = st.func.value
            if isinstance(inner, ast.Call) and ast.unparse(inner.func).endswith("column_stack") and inner.args:
                lst = inner.args[0]
                if isinstance(lst, (ast.List, ast.Tuple)) and len(lst.elts) >= 9:
                    entries = []
                    faces_var = None
                    for e in lst.elts:
                        if not (isinstance(e, ast.Subscript) and isinstance(e.value, ast.Name)
                                and isinstance(e.slice, ast.Tuple) and isinstance(e.slice.elts[0], ast.Slice)):
                            raise AnalysisError(f"{where}: unexpected child table entry `{ast.unparse(e)}`")
                        col = const_eval(e.slice.elts[1])
                        if e.value.id == mid_var:
                            entries.append(("m", col))
                        else:
                            if faces_var not in (None, e.value.id):
                                raise AnalysisError(f"{where}: child table mixes arrays {faces_var}, {e.value.id}")
                            faces_var = e.value.id
                            entries.append(("v", col))
                    shp = const_eval(st.args[0])
                    if shp != (-1, 3) or len(entries) % 3:
                        raise AnalysisError(f"{where}: child table is not reshaped to (-1, 3)")
                    tris = [tuple(entries[i:i + 3]) for i in range(0, len(entries), 3)]
                    return tris, faces_var, mid_var, width
    raise AnalysisError(f"{where}: anchor vanished: np.column_stack([...]).reshape((-1, 3)) child table")
