"""A point handed to a triangulator as "lies inside this (possibly non-convex) region" - the hole seeds of the `triangle`
engine - must be an interior point by construction (`representative_point()` of the region).  The centroid, the mean of the
ring's points or the centre of its bounds lie OUTSIDE a C- or L-shaped hole; the triangulator then does not carve the hole
(and may eat the material the seed landed in), so caps of sections / extrusions of such polygons come out with the wrong area.

Static: in the function of creation.py that builds the `holes` entry of the triangulator arguments, every value that is
accumulated into what is stored under "holes" is classified by the call it was produced by."""
from __future__ import annotations

import ast
import re

from .report import key_of

GOOD = re.compile(r"\.representative_point\(\)|\bpoint_on_surface\(|\.point_on_surface\(\)")
BAD = re.compile(r"\.centroid\b|\.mean\(|\bmean\(|\baverage\(|\.bounds\b|\.envelope\b|\bmedian\(")


def hole_seed_rule(run, ix, rule, prop):
    run.rule(rule, "polygon triangulation (`triangle` engine): the seed point of every hole is an interior point of the hole by construction (`representative_point()`); "
                   "a centroid / mean / bounds centre lies outside a non-convex hole, which is then not carved out")
    mod = ix.modules.get("trimesh.creation")
    cands = []
    if mod is not None:
        for f in ix.all_functions:
            if f.module is not mod or f.parent is not None:
                continue
            stores = [st for st in ast.walk(f.node) if isinstance(st, ast.Assign) and len(st.targets) == 1 and isinstance(st.targets[0], ast.Subscript)
                      and isinstance(st.targets[0].slice, ast.Constant) and st.targets[0].slice.value == "holes"]
            lits = [(d, v) for d in ast.walk(f.node) if isinstance(d, ast.Dict) for k, v in zip(d.keys, d.values) if isinstance(k, ast.Constant) and k.value == "holes"]
            if stores or lits:
                cands.append((f, [s.value for s in stores] + [v for _, v in lits]))
    if len(cands) != 1:
        run.instance(rule, "trimesh/creation.py", f"{len(cands)} functions build a `holes` entry - NOT decided", True, nontrivial=False)
        run.assume("creation: hole seeds of the triangle engine not in a recognised form")
        return
    f, values = cands[0]
    # names the stored value is built from, closed over local assignments (x = g(y) makes y a source of x)
    assigns = {}
    for st in ast.walk(f.node):
        if isinstance(st, ast.Assign) and len(st.targets) == 1 and isinstance(st.targets[0], ast.Name):
            assigns.setdefault(st.targets[0].id, []).append(st.value)
    srcs, todo = set(), [n.id for v in values for n in ast.walk(v) if isinstance(n, ast.Name)]
    while todo:
        n = todo.pop()
        if n in srcs:
            continue
        srcs.add(n)
        for v in assigns.get(n, []):
            todo += [x.id for x in ast.walk(v) if isinstance(x, ast.Name)]
    # what is accumulated into those names: X.append(e) / X.extend([e]) / X += [e], anywhere in f (nested helpers included)
    seeds = []
    for c in ast.walk(f.node):
        if isinstance(c, ast.Call) and isinstance(c.func, ast.Attribute) and c.func.attr in ("append", "appendleft") and isinstance(c.func.value, ast.Name) \
                and c.func.value.id in srcs and len(c.args) == 1:
            seeds.append((c, c.args[0]))
        if isinstance(c, ast.AugAssign) and isinstance(c.target, ast.Name) and c.target.id in srcs and isinstance(c.value, (ast.List, ast.Tuple)):
            seeds += [(c, e) for e in c.value.elts]
    for v in values:
        for comp in ast.walk(v):
            if isinstance(comp, (ast.ListComp, ast.GeneratorExp)):
                seeds.append((comp, comp.elt))
    # only accumulations of POINTS count: the same helper appends rings and segment tables to other lists; keep the ones
    # whose expression (with single-assignment locals of the enclosing helper folded in) mentions a point-of-region call
    decided = 0
    for node, e in seeds:
        txt = ast.unparse(e)
        # fold the locals of the function that owns the statement
        owner = f
        for g in f.nested.values():
            if any(x is node for x in ast.walk(g.node)):
                owner = g
        loc = {}
        for st in ast.walk(owner.node):
            if isinstance(st, ast.Assign) and len(st.targets) == 1 and isinstance(st.targets[0], ast.Name):
                loc.setdefault(st.targets[0].id, []).append(ast.unparse(st.value))
        for _ in range(3):
            for n in {x.id for x in ast.walk(e) if isinstance(x, ast.Name)} | set(re.findall(r"\b[A-Za-z_]\w*\b", txt)):
                if n in loc and len(loc[n]) == 1 and re.search(r"\b%s\b" % re.escape(n), txt):
                    txt = re.sub(r"\b%s\b" % re.escape(n), "(" + loc[n][0].replace("\\", "\\\\") + ")", txt)
        good, bad = GOOD.search(txt), BAD.search(txt)
        where = f"{f.module.rel}:{node.lineno} {owner.qualname}"
        if good and not bad:
            decided += 1
            run.instance(rule, where, f"hole seed `{ast.unparse(e)[:60]}` is a representative point of the region", True)
        elif bad and not good:
            decided += 1
            run.instance(rule, where, f"hole seed `{ast.unparse(e)[:60]}` is `{bad.group(0)}` of the ring", False)
            run.violation(rule, where, f"the seed point that tells the `triangle` engine where a hole is comes from `{txt[:90]}`: a centroid / mean / bounds centre is not inside a "
                                       f"non-convex hole (a C- or L-shaped cut-out), so that hole is triangulated over and the cap / extrusion has the wrong area and volume",
                          key=key_of(f"{prop}-{rule}", "hole-seed"))
    if decided == 0:
        run.instance(rule, f.where, "no hole seed of a recognised form (representative point / centroid / mean) - NOT decided", True, nontrivial=False)
        run.assume("creation: hole seeds not classified")
