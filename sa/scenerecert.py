"""Scene graph memo: resolved transforms are never carried across an edge write by re-certification.

SceneGraph._cache holds (frame_from, frame_to) -> matrix entries keyed on the forest hash.  The design invariant behind
C09 ("a change to any edge is visible in every dependent query immediately") and C10 is that a forest write changes the
hash and the whole memo goes.  A function that writes the forest AND re-certifies entries computed before the write
(`_cache.id_set()`, `_cache.cache = kept`, `_cache.update(kept)`) keeps matrices resolved along the old edges.  Which of them
are still right depends on BOTH end points of the key (the path between them runs up from `frame_from` and down to
`frame_to`): a retention filter that looks at one end only is positive evidence of a violation; so is keeping everything.
A filter that tests both ends is recorded as not decided."""
from __future__ import annotations

import ast

from .report import key_of

FOREST_WRITES = ("add_edge", "remove_node", "remove_edge", "remove_geometries")


def _recert_sites(f):
    out = []
    for n in ast.walk(f.node):
        if isinstance(n, ast.Call) and isinstance(n.func, ast.Attribute) and n.func.attr == "id_set" and ast.unparse(n.func.value).endswith("_cache"):
            out.append((n, "id_set", None))
        if isinstance(n, ast.Call) and isinstance(n.func, ast.Attribute) and n.func.attr == "update" and ast.unparse(n.func.value).endswith("_cache") and n.args:
            out.append((n, "update", n.args[0]))
        if isinstance(n, ast.Call) and isinstance(n.func, ast.Attribute) and n.func.attr == "update" and ast.unparse(n.func.value).endswith("_cache.cache") and n.args:
            out.append((n, "dict-update", n.args[0]))
        if isinstance(n, ast.Assign) and any(isinstance(t, ast.Attribute) and t.attr == "cache" and ast.unparse(t.value).endswith("_cache") for t in n.targets):
            out.append((n, "dict-replace", n.value))
    return out


def _kept_exprs(ix, f, e, depth=0):
    """expressions that can be the value of e: local definitions and returns of same-class helpers followed"""
    if e is None or depth > 3:
        return []
    if isinstance(e, ast.Name):
        out = []
        for st in ast.walk(f.node):
            if isinstance(st, ast.Assign) and len(st.targets) == 1 and isinstance(st.targets[0], ast.Name) and st.targets[0].id == e.id:
                out += _kept_exprs(ix, f, st.value, depth + 1)
        return out
    if isinstance(e, ast.Call) and isinstance(e.func, ast.Attribute) and isinstance(e.func.value, ast.Name) and e.func.value.id == "self" and f.cls is not None:
        for k in f.cls.mro:
            g = k.methods.get(e.func.attr)
            if g is not None:
                out = []
                for r in ast.walk(g.node):
                    if isinstance(r, ast.Return) and r.value is not None and not (isinstance(r.value, ast.Constant) and r.value.value is None):
                        out += [(g, x) for _, x in _kept_exprs(ix, g, r.value, depth + 1)] or [(g, r.value)]
                return out
    if isinstance(e, ast.IfExp):
        return _kept_exprs(ix, f, e.body, depth + 1) + _kept_exprs(ix, f, e.orelse, depth + 1)
    return [(f, e)]


def recert_rule(run, ix, rule, prop):
    run.rule(rule, "scene graph memo: no function that writes the forest (add_edge / remove_node / ...) re-certifies resolved transforms computed before the write "
                   "(id_set, replacing or updating the raw memo dict) - unless its retention filter looks at BOTH end points of every (frame_from, frame_to) key")
    n = 0
    for f in ix.all_functions:
        if not f.module.name.startswith("trimesh.scene"):
            continue
        sites = _recert_sites(f)
        if not sites:
            continue
        src = ast.unparse(f.node)
        writes = [w for w in FOREST_WRITES if f".{w}(" in src]
        if f.cls is not None and f.cls.name == "SceneGraph" and f.name == "update":
            writes = writes or ["add_edge"]
        if not writes:
            continue
        for node, kind, val in sites:
            n += 1
            where = f"{f.module.rel}:{node.lineno} {f.qualname}"
            kept = _kept_exprs(ix, f, val) if val is not None else []
            # id_set() alone: whatever dict is current is re-certified; look for what was put there
            if kind == "id_set":
                others = [s for s in sites if s[1] in ("dict-replace", "dict-update")]
                if others:
                    continue  # decided at the store
                run.instance(rule, where, f"`{ast.unparse(node)[:50]}` after {writes}: nothing is put back into the memo here - NOT decided", True, nontrivial=False)
                continue
            verdict = None
            for g, e in kept:
                comps = [c for c in ast.walk(e) if isinstance(c, (ast.DictComp, ast.ListComp, ast.GeneratorExp))]
                from_memo = "_cache" in ast.unparse(e)
                if not from_memo:
                    continue
                if not comps:
                    verdict = ("all", ast.unparse(e)[:70])
                    break
                for c in comps:
                    gen = c.generators[0]
                    if "_cache" not in ast.unparse(gen.iter):
                        continue
                    tgt = gen.target
                    key = tgt.elts[0] if isinstance(tgt, ast.Tuple) and tgt.elts else tgt
                    ends = set()
                    for cond in gen.ifs:
                        for s in ast.walk(cond):
                            if isinstance(s, ast.Subscript) and isinstance(key, ast.Name) and isinstance(s.value, ast.Name) and s.value.id == key.id \
                                    and isinstance(s.slice, ast.Constant):
                                ends.add(s.slice.value)
                            if isinstance(key, ast.Tuple):
                                for i_, el in enumerate(key.elts):
                                    if isinstance(el, ast.Name) and isinstance(s, ast.Name) and s.id == el.id:
                                        ends.add(i_)
                    if not gen.ifs:
                        verdict = ("all", ast.unparse(c)[:70])
                    elif ends and ends < {0, 1, -1, -2} and len({x % 2 for x in ends}) == 1:
                        verdict = ("one-end", ast.unparse(gen.ifs[0])[:70])
                    elif len({x % 2 for x in ends}) == 2:
                        verdict = verdict or ("both", ast.unparse(gen.ifs[0])[:70])
                if verdict and verdict[0] != "both":
                    break
            if verdict is None or verdict[0] == "both":
                run.instance(rule, where, f"memo entries re-certified after {writes}: retention {'tests both end points' if verdict else 'not in a recognised form'} - NOT decided", True, nontrivial=False)
                run.assume(f"{f.qualname}: retention of scene graph memo entries across a forest write not decided")
                continue
            run.instance(rule, where, f"memo entries re-certified after {writes}: retention `{verdict[1]}` ({verdict[0]})", False)
            run.violation(rule, where, f"`{f.qualname}` writes the forest ({', '.join(writes)}) and then re-certifies resolved transforms computed before the write "
                          f"({'all of them' if verdict[0] == 'all' else 'filtered by ONE end point of the (frame_from, frame_to) key only: `' + verdict[1] + '`'}): a lookup that "
                          f"starts (or ends) below the moved edge keeps the old matrix, so bounds / dump / to_mesh place nodes with a stale transform",
                          key=key_of(f"{prop}-{rule}", f.qualname, verdict[0]))
    if n == 0:
        run.instance(rule, "trimesh/scene", "no function of trimesh.scene re-certifies graph memo entries across a forest write", True)
