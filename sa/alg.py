"""E3 - algebraic abstract interpreter: evaluates a restricted subset of
Python/numpy AST over the domain of sympy expressions held in numpy object
arrays (the array container gives slicing/broadcasting; the elements are
polynomials / rational functions in named symbols).  It interprets the
repository's *source* (resolved through the E0 index); trimesh is never imported.

There is no path search: a branch whose test is not statically decided is taken
according to the caller's `decisions` table (keyed by the normalised source text
of the test) and recorded as an assumption; an undecided test that is not in the
table is an ANALYSIS-ERROR, never a guess.  Unsupported constructs are an
ANALYSIS-ERROR naming the node.
"""
from __future__ import annotations

import ast
import math
import types

import numpy as np
import sympy as sp

from .index import ClassInfo, FuncInfo, Module
from .report import AnalysisError, norm_text


class Unsupported(AnalysisError):
    pass


class Namespace:
    """dataclass / simple object value"""

    def __init__(self, cls_name, **kw):
        self.__dict__["_cls"] = cls_name
        self.__dict__.update(kw)

    def __getitem__(self, k):
        return getattr(self, k)


class ModRef:
    def __init__(self, dotted):
        self.dotted = dotted

    def __repr__(self):
        return f"<mod {self.dotted}>"


class ExtRef:
    """reference to an external (numpy/math) callable or constant by dotted name"""

    def __init__(self, dotted):
        self.dotted = dotted

    def __repr__(self):
        return f"<ext {self.dotted}>"


class Closure:
    def __init__(self, fi, env):
        self.fi = fi
        self.env = env


class PyHook:
    """a Python callable installed by a rule as an attribute of a Namespace (e.g. a recording `apply_transform`)"""

    def __init__(self, fn):
        self.fn = fn


class _Return(Exception):
    def __init__(self, v):
        self.v = v


class _Break(Exception):
    pass


class _Continue(Exception):
    pass


def S(x):
    """python number -> exact sympy number"""
    if isinstance(x, bool):
        return x
    if isinstance(x, int):
        return sp.Integer(x)
    if isinstance(x, float):
        if x == int(x) and abs(x) < 1e15:
            return sp.Integer(int(x))
        return sp.Rational(repr(x))
    return x


def arr(x):
    """anything array-like -> numpy object array of sympy values (or a sympy scalar)"""
    if isinstance(x, np.ndarray):
        if x.dtype == object:
            return x
        out = np.empty(x.shape, dtype=object)
        for idx in np.ndindex(x.shape):
            out[idx] = S(x[idx].item())
        return out
    if isinstance(x, (list, tuple)):
        items = [arr(i) for i in x]
        if not items:
            return np.empty((0,), dtype=object)
        if all(isinstance(i, np.ndarray) for i in items):
            shp = items[0].shape
            out = np.empty((len(items),) + shp, dtype=object)
            for k, i in enumerate(items):
                if i.shape != shp:
                    raise Unsupported("ragged array literal")
                out[k] = i
            return out
        out = np.empty((len(items),), dtype=object)
        for k, i in enumerate(items):
            out[k] = i
        return out
    return S(x)


def is_sym(v):
    if isinstance(v, sp.Basic):
        return bool(v.free_symbols)
    if isinstance(v, np.ndarray):
        return any(isinstance(e, sp.Basic) and e.free_symbols for e in v.flat)
    return False


def vmap(fn, x):
    if isinstance(x, np.ndarray):
        out = np.empty(x.shape, dtype=object)
        for idx in np.ndindex(x.shape):
            out[idx] = fn(x[idx])
        return out
    return fn(x)


def _cross(a, b, **kw):
    a, b = arr(a), arr(b)
    if a.shape[-1] != 3 or b.shape[-1] != 3:
        raise Unsupported("cross of non 3-vectors")
    a, b = np.broadcast_arrays(a, b)
    out = np.empty(a.shape, dtype=object)
    out[..., 0] = a[..., 1] * b[..., 2] - a[..., 2] * b[..., 1]
    out[..., 1] = a[..., 2] * b[..., 0] - a[..., 0] * b[..., 2]
    out[..., 2] = a[..., 0] * b[..., 1] - a[..., 1] * b[..., 0]
    return out


def _dot(a, b, **kw):
    a, b = arr(a), arr(b)
    if not isinstance(a, np.ndarray) or not isinstance(b, np.ndarray):
        return a * b
    return np.dot(a, b)


def _sum(a, axis=None, **kw):
    a = arr(a)
    if not isinstance(a, np.ndarray):
        return a
    if axis is None:
        t = sp.Integer(0)
        for e in a.flat:
            t = t + e
        return t
    r = np.add.reduce(a, axis=axis)
    return r


def _prod(a, axis=None, **kw):
    a = arr(a)
    if axis is None:
        t = sp.Integer(1)
        for e in a.flat:
            t = t * e
        return t
    return np.multiply.reduce(a, axis=axis)


def _zeros(shape, *a, **kw):
    if isinstance(shape, (int, sp.Integer)):
        shape = (int(shape),)
    shape = tuple(int(s) for s in shape)
    out = np.empty(shape, dtype=object)
    out[...] = sp.Integer(0)
    return out


def _eye(n, *a, **kw):
    n = int(n)
    out = _zeros((n, n))
    for i in range(n):
        out[i, i] = sp.Integer(1)
    return out


def _multi_dot(mats, **kw):
    out = arr(mats[0])
    for m in mats[1:]:
        out = np.dot(out, arr(m))
    return out


def _outer(a, b, **kw):
    a, b = arr(a), arr(b)
    out = np.empty((len(a), len(b)), dtype=object)
    for i in range(len(a)):
        for j in range(len(b)):
            out[i, j] = a[i] * b[j]
    return out


class Interp:
    def __init__(self, ix, decisions=None, overrides=None, symbols=None, trig=None, assume_shapes=True, max_depth=8):
        self.ix = ix
        self.decisions = {norm_text(k): v for k, v in (decisions or {}).items()}
        self.overrides = overrides or {}  # (function qualname, variable) -> value installed after its assignment
        self.captured = {}  # same key -> value that the code computed
        self.assumptions = []
        self.trig = trig  # callable (fn_name, arg) -> sympy expr, for sin/cos
        self.max_depth = max_depth
        self.depth = 0
        self.ext_consts = dict(symbols or {})  # dotted external constant -> value
        # in-repo helpers treated as primitives (reasoned, listed in evidence through assumptions)
        self.stubs = {"trimesh.util:is_shape": _stub_is_shape}
        self.decider = None  # optional callback(frame, test_node) -> bool | None
        self.ext_stubs = {}  # dotted external callee -> callback(interp, args, kw)
        self.trace = None  # when a dict: (function qualname, variable) -> list of every value bound to that name / stored into it
        self._fresh = 0

    # ------------------------------------------------------------------ external functions
    def ext_call(self, dotted, args, kw, node):
        name = dotted.split(".")[-1]
        kw = dict(kw)
        if dotted in getattr(self, "ext_stubs", {}):
            # the rule supplies the value of an external call (e.g. a determinant it wants to treat as a symbol)
            return self.ext_stubs[dotted](self, args, kw)
        for k in ("dtype", "order", "copy", "subok"):
            kw.pop(k, None)
        if name == "array":
            a0 = arr(args[0])
            return a0.copy() if isinstance(a0, np.ndarray) else a0  # np.array copies; the as* family aliases
        if name in ("asanyarray", "asarray", "ascontiguousarray", "float64", "asfarray"):
            return arr(args[0])
        if name in ("zeros", "empty"):
            return _zeros(args[0])
        if name == "ones":
            z = _zeros(args[0])
            z[...] = sp.Integer(1)
            return z
        if name in ("eye", "identity"):
            return _eye(args[0])
        if name == "zeros_like":
            return _zeros(arr(args[0]).shape)
        if name in ("random", "rand", "random_sample", "uniform") and ".random" in dotted:
            # an arbitrary sample: fresh symbols, so anything proven holds for every draw
            shape = args[0] if name != "rand" else tuple(args)
            if name == "uniform":
                shape = kw.get("size", args[2] if len(args) > 2 else ())
            self._fresh += 1
            self.assume(f"{dotted}: modelled as arbitrary reals (fresh symbols rnd{self._fresh}_*)")
            return symbols_array(f"rnd{self._fresh}_", tuple(int(x) for x in (shape if isinstance(shape, (tuple, list)) else (shape,))))
        if name == "diff":
            a = arr(args[0])
            ax = int(kw.get("axis", -1)) % a.ndim
            hi = [slice(None)] * a.ndim
            lo = [slice(None)] * a.ndim
            hi[ax] = slice(1, None)
            lo[ax] = slice(None, -1)
            return a[tuple(hi)] - a[tuple(lo)]
        if name == "einsum" and args and isinstance(args[0], str):
            return np.einsum(args[0], *[np.asarray(arr(a_), dtype=object) for a_ in args[1:]])
        if name == "cross":
            return _cross(*args)
        if name == "dot":
            return _dot(*args)
        if name == "multi_dot":
            return _multi_dot(args[0])
        if name == "outer":
            return _outer(*args)
        if name == "sum":
            return _sum(args[0], **{k: v for k, v in kw.items() if k == "axis"})
        if name == "prod":
            return _prod(args[0], **{k: v for k, v in kw.items() if k == "axis"})
        if name == "mod":
            a, b = args
            if isinstance(a, (int, sp.Integer)) and isinstance(b, (int, sp.Integer)):
                return int(a) % int(b)
            raise Unsupported("np.mod on symbolic values")
        if name == "sqrt":
            return vmap(sp.sqrt, arr(args[0]))
        if name in ("abs", "absolute", "fabs"):
            return vmap(sp.Abs, arr(args[0]))
        if name == "sign":
            return vmap(sp.sign, arr(args[0]))
        if name in ("sin", "cos", "tan"):
            if self.trig is None:
                return vmap(getattr(sp, name), arr(args[0]))
            return vmap(lambda x: self.trig(name, x), arr(args[0]))
        if name == "arctan2":
            fn = getattr(self, "ext_arctan2", None) or sp.atan2
            return fn(args[0], args[1])
        if name in ("negative",):
            return -arr(args[0])
        if name in ("subtract",):
            return arr(args[0]) - arr(args[1])
        if name in ("add",):
            return arr(args[0]) + arr(args[1])
        if name in ("multiply",):
            return arr(args[0]) * arr(args[1])
        if name in ("divide", "true_divide"):
            return arr(args[0]) / arr(args[1])
        if name == "transpose":
            return arr(args[0]).T
        if name == "trace":
            a = arr(args[0])
            return _sum(np.array([a[i, i] for i in range(a.shape[0])], dtype=object))
        if name == "diag":
            a = arr(args[0])
            if a.ndim == 1:
                out = _zeros((len(a), len(a)))
                for i in range(len(a)):
                    out[i, i] = a[i]
                return out
            return np.array([a[i, i] for i in range(a.shape[0])], dtype=object)
        if name in ("column_stack", "vstack", "hstack", "stack", "concatenate"):
            parts = [arr(p) for p in args[0]]
            fn = getattr(np, name)
            return fn(parts, **{k: v for k, v in kw.items() if k == "axis"})
        if name == "reshape":
            return arr(args[0]).reshape(args[1])
        if name == "len":
            return len(args[0])
        if name == "range":
            return range(*[int(a) for a in args])
        if name in ("float", "int") and len(args) == 1:
            a = args[0]
            if isinstance(a, (int, float)):
                return S({"float": float, "int": int}[name](a))
            if isinstance(a, sp.Basic) and not a.free_symbols and name == "int":
                return sp.Integer(int(a))
            return a
        if name == "bool":
            if isinstance(args[0], (bool, int)):
                return bool(args[0])
            raise Unsupported("bool() of a symbolic value")
        if name in ("tuple", "list"):
            return list(args[0]) if name == "list" else tuple(args[0])
        if name == "isinstance":
            raise Unsupported("isinstance")
        if name == "enumerate":
            return list(enumerate(args[0]))
        if name == "zip":
            return list(zip(*args))
        if name in ("min", "max") and all(isinstance(a, (int, float)) for a in args):
            return {"min": min, "max": max}[name](args)
        if name in ("ptp", "max", "min", "amax", "amin", "median", "norm", "maximum", "minimum", "argmax", "argmin"):
            # non-polynomial reduction: opaque function of whatever its arguments depend on
            free = set()
            for a_ in args:
                for e_ in (np.asarray(arr(a_), dtype=object).flat if isinstance(arr(a_), np.ndarray) else [arr(a_)]):
                    if isinstance(e_, sp.Basic):
                        free |= e_.free_symbols
            if not free:
                vals = [x for a_ in args for x in (np.asarray(arr(a_), dtype=object).flat if isinstance(arr(a_), np.ndarray) else [arr(a_)])]
                if name in ("max", "amax", "maximum"):
                    return sp.Max(*vals)
                if name in ("min", "amin", "minimum"):
                    return sp.Min(*vals)
            ax = kw.get("axis")
            f_ = sp.Function("opaque_" + name)(*sorted(free, key=str))
            if ax is not None and isinstance(arr(args[0]), np.ndarray):
                a0 = arr(args[0])
                shp = tuple(d for i, d in enumerate(a0.shape) if i != (int(ax) % a0.ndim))
                out = np.empty(shp, dtype=object)
                for k_, idx in enumerate(np.ndindex(shp)):
                    out[idx] = sp.Function(f"opaque_{name}_{k_}")(*sorted(free, key=str))
                return out
            return f_
        if name in ("any", "all", "isfinite", "isnan", "allclose", "isclose"):
            vals = []
            for a_ in args:
                a_ = arr(a_)
                vals += list(a_.flat) if isinstance(a_, np.ndarray) else [a_]
            free = set()
            for v_ in vals:
                if isinstance(v_, sp.Basic):
                    free |= v_.free_symbols
            if not free and name in ("isfinite", "isnan") and len(vals) == 1:
                fin = bool(sp.S(vals[0]).is_finite)
                return fin if name == "isfinite" else not fin
            if not free and name in ("any", "all") and all(isinstance(v_, (bool, np.bool_, sp.logic.boolalg.BooleanAtom)) for v_ in vals):
                return (any if name == "any" else all)(bool(v_) for v_ in vals)
            # a data-dependent predicate: left to the rule's decision table / decider
            return sp.Function("opaque_" + name)(*sorted(free, key=str)) if free else sp.Function("opaque_" + name)(sp.Symbol("_"))
        if name == "is_shape":
            self.assume(f"shape test util.is_shape({', '.join(map(_short, args[1:]))}) holds for the inputs considered")
            return True
        raise Unsupported(f"external call {dotted} at line {getattr(node, 'lineno', '?')}")

    def assume(self, text):
        if text not in self.assumptions:
            self.assumptions.append(text)

    # ------------------------------------------------------------------ functions
    def call(self, fi, args=(), kwargs=None, closure_env=None):
        kwargs = dict(kwargs or {})
        stub_key = f"{fi.module.name}:{fi.qualname}"
        if stub_key in self.stubs:
            return self.stubs[stub_key](self, args, kwargs)
        self.depth += 1
        if self.depth > self.max_depth:
            raise Unsupported(f"call depth exceeded at {fi.qualname}")
        try:
            env = {}
            a = fi.node.args
            params = [x.arg for x in a.posonlyargs + a.args]
            defaults = [None] * (len(params) - len(a.defaults)) + list(a.defaults)
            frame = Frame(self, fi, env, closure_env)
            for p, d, i in zip(params, defaults, range(len(params))):
                if i < len(args):
                    env[p] = args[i]
                elif p in kwargs:
                    env[p] = kwargs.pop(p)
                elif d is not None:
                    env[p] = frame.ev(d)
                else:
                    raise Unsupported(f"missing argument {p} for {fi.qualname}")
            for p, d in zip(a.kwonlyargs, a.kw_defaults):
                if p.arg in kwargs:
                    env[p.arg] = kwargs.pop(p.arg)
                elif d is not None:
                    env[p.arg] = frame.ev(d)
            if a.kwarg:
                env[a.kwarg.arg] = kwargs
            elif kwargs:
                raise Unsupported(f"unexpected keyword arguments {list(kwargs)} for {fi.qualname}")
            try:
                frame.block(fi.node.body)
            except _Return as r:
                return r.v
            return None
        finally:
            self.depth -= 1


def _stub_is_shape(it, args, kw):
    shape = args[1] if len(args) > 1 else kw.get("shape")
    it.assume(f"shape test util.is_shape(..., {shape}) holds for the inputs considered")
    return True


def _short(v):
    s = repr(v)
    return s if len(s) < 40 else s[:37] + "..."


class Frame:
    def __init__(self, interp, fi, env, closure_env=None):
        self.it = interp
        self.fi = fi
        self.env = env
        self.closure_env = closure_env
        self.mod = fi.module

    # ---------------------------------------------------------- names
    def lookup(self, name, node=None):
        if name in self.env:
            return self.env[name]
        e = self.closure_env
        while e is not None:
            if name in e.env:
                return e.env[name]
            e = e.closure_env
        if name in self.fi.nested:
            return Closure(self.fi.nested[name], self)
        p = self.fi.parent
        while p is not None:
            if name in p.nested:
                return Closure(p.nested[name], self.closure_env)
            p = p.parent
        return self.global_name(name, node)

    def global_name(self, name, node=None):
        m = self.mod
        if name in ("True", "False", "None"):
            return {"True": True, "False": False, "None": None}[name]
        if name in m.functions:
            return m.functions[name]
        if name in m.classes:
            return m.classes[name]
        if name in m.constants:
            key = f"{m.name}.{name}"
            if key in self.it.ext_consts:
                return self.it.ext_consts[key]
            st = m.constants[name][-1]
            if not isinstance(st, ast.Assign):
                raise Unsupported(f"module constant {name} is not a plain assignment")
            top = Frame(self.it, _ModuleFunc(m), {}, None)
            v = top.ev(st.value)
            self.it.ext_consts[key] = v
            return v
        if name in m.imports:
            d = m.imports[name]
            r = self.it.ix.resolve_dotted(d)
            if isinstance(r, Module):
                return ModRef(r.name)
            if isinstance(r, (FuncInfo, ClassInfo)):
                return r
            if isinstance(r, tuple) and r[0] == "const":
                other = Frame(self.it, _ModuleFunc(r[1]), {}, None)
                return other.global_name(r[2])
            if d in self.it.ext_consts:
                return self.it.ext_consts[d]
            return ExtRef(d)
        if name in ("len", "range", "float", "int", "bool", "abs", "tuple", "list", "enumerate", "zip", "min", "max", "any", "all",
                    "sum", "isinstance"):
            return ExtRef("builtins." + name)
        raise Unsupported(f"unbound name {name} in {self.fi.qualname} line {getattr(node, 'lineno', '?')}")

    # ---------------------------------------------------------- expressions
    def ev(self, e):
        if isinstance(e, ast.Constant):
            v = e.value
            if isinstance(v, (int, float)) and not isinstance(v, bool):
                return S(v)
            return v
        if isinstance(e, ast.Name):
            return self.lookup(e.id, e)
        if isinstance(e, (ast.List, ast.Tuple)):
            vals = [self.ev(x) for x in e.elts]
            return vals if isinstance(e, ast.List) else tuple(vals)
        if isinstance(e, ast.Dict):
            return {self.ev(k): self.ev(v) for k, v in zip(e.keys, e.values)}
        if isinstance(e, ast.UnaryOp):
            v = self.ev(e.operand)
            if isinstance(e.op, ast.USub):
                return -arr(v) if not isinstance(v, (int, float)) else -v
            if isinstance(e.op, ast.UAdd):
                return v
            if isinstance(e.op, ast.Not):
                b = self.truth(v, e.operand)
                return not b
            if isinstance(e.op, ast.Invert) and isinstance(v, np.ndarray) and v.dtype == bool:
                return ~v
            if isinstance(e.op, ast.Invert) and isinstance(v, bool):
                return not v
            raise Unsupported(f"unary {ast.unparse(e)}")
        if isinstance(e, ast.BinOp):
            a, b = self.ev(e.left), self.ev(e.right)
            return self.binop(e.op, a, b, e)
        if isinstance(e, ast.BoolOp):
            if isinstance(e.op, ast.And):
                v = True
                for x in e.values:
                    v = self.ev(x)
                    if not self.truth(v, x):
                        return v
                return v
            v = False
            for x in e.values:
                v = self.ev(x)
                if self.truth(v, x):
                    return v
            return v
        if isinstance(e, ast.Compare):
            return self.compare(e)
        if isinstance(e, ast.IfExp):
            return self.ev(e.body) if self.truth(self.ev(e.test), e.test) else self.ev(e.orelse)
        if isinstance(e, ast.Attribute):
            return self.attr(self.ev(e.value), e.attr, e)
        if isinstance(e, ast.Subscript):
            v = self.ev(e.value)
            idx = self.index(e.slice)
            return self.getitem(v, idx, e)
        if isinstance(e, ast.Call):
            return self.callexpr(e)
        if isinstance(e, ast.ListComp) and len(e.generators) == 1:
            g = e.generators[0]
            out = []
            for item in self.iterate(self.ev(g.iter)):
                self.bind(g.target, item)
                if all(self.truth(self.ev(c), c) for c in g.ifs):
                    out.append(self.ev(e.elt))
            return out
        if isinstance(e, ast.JoinedStr):
            return "<fstring>"
        if isinstance(e, ast.Starred):
            raise Unsupported("starred expression")
        raise Unsupported(f"expression `{ast.unparse(e)[:60]}` ({type(e).__name__}) in {self.fi.qualname}")

    def iterate(self, v):
        if isinstance(v, (list, tuple, range)):
            return list(v)
        if isinstance(v, np.ndarray):
            return [v[i] for i in range(v.shape[0])]
        if isinstance(v, dict):
            return list(v)
        raise Unsupported(f"iteration over {type(v).__name__}")

    def index(self, s):
        if isinstance(s, ast.Slice):
            f = lambda x: None if x is None else int(self.ev(x))  # noqa
            return slice(f(s.lower), f(s.upper), f(s.step))
        if isinstance(s, ast.Tuple):
            return tuple(self.index(x) for x in s.elts)
        v = self.ev(s)
        if isinstance(v, sp.Integer):
            return int(v)
        if isinstance(v, list) and all(isinstance(i, (int, sp.Integer)) for i in v):
            return [int(i) for i in v]
        if isinstance(v, tuple) and all(isinstance(i, (int, sp.Integer)) for i in v):
            return tuple(int(i) for i in v)
        return v

    def getitem(self, v, idx, node):
        if isinstance(v, np.ndarray):
            try:
                return v[idx]
            except Exception as ex:
                raise Unsupported(f"indexing `{ast.unparse(node)}`: {ex}")
        if isinstance(v, (list, tuple, str)):
            return v[idx]
        if isinstance(v, dict):
            if idx not in v:
                raise Unsupported(f"key {idx!r} not in constant table (`{ast.unparse(node)[:50]}`)")
            return v[idx]
        if isinstance(v, Namespace):
            return getattr(v, idx)
        raise Unsupported(f"subscript of {type(v).__name__} in `{ast.unparse(node)[:50]}`")

    def binop(self, o, a, b, node):
        if isinstance(a, (list, tuple)) and isinstance(o, ast.Add) and isinstance(b, (list, tuple)):
            return type(a)(list(a) + list(b))
        if isinstance(a, (list, tuple)) and isinstance(o, ast.Mult) and isinstance(b, (int, sp.Integer)):
            return type(a)(list(a) * int(b))
        a, b = arr(a), arr(b)
        try:
            if isinstance(o, ast.Add):
                return a + b
            if isinstance(o, ast.Sub):
                return a - b
            if isinstance(o, ast.Mult):
                return a * b
            if isinstance(o, ast.Div):
                return a / b
            if isinstance(o, ast.Pow):
                return a**b
            if isinstance(o, ast.MatMult):
                return np.dot(a, b)
            if isinstance(o, ast.Mod) and not is_sym(a) and not is_sym(b):
                return a % b
            if isinstance(o, ast.FloorDiv) and not is_sym(a) and not is_sym(b):
                return a // b
            if isinstance(o, (ast.LShift, ast.RShift, ast.BitAnd, ast.BitOr)) and not is_sym(a) and not is_sym(b):
                import operator as op

                fn = {ast.LShift: op.lshift, ast.RShift: op.rshift, ast.BitAnd: op.and_, ast.BitOr: op.or_}[type(o)]
                return S(fn(int(a), int(b)))
        except Unsupported:
            raise
        except Exception as ex:
            raise Unsupported(f"`{ast.unparse(node)[:60]}`: {ex}")
        raise Unsupported(f"operator in `{ast.unparse(node)[:60]}`")

    def compare(self, e):
        try:
            left = self.ev(e.left)
            rights = [self.ev(c) for c in e.comparators]
        except Unsupported:
            return self.decide(e)
        result = True
        for o, right in zip(e.ops, rights):
            r = self.cmp1(o, left, right, e)
            if r is None:
                return self.decide(e)
            if not r:
                return False
            left = right
        return result

    def cmp1(self, o, a, b, node):
        if isinstance(o, ast.Is):
            return a is b or (a is None and b is None)
        if isinstance(o, ast.IsNot):
            return not (a is b or (a is None and b is None))
        if isinstance(o, (ast.In, ast.NotIn)):
            if isinstance(b, (list, tuple, dict, str, set)):
                r = a in b
                return r if isinstance(o, ast.In) else not r
            return None
        if is_sym(a) or is_sym(b) or isinstance(a, np.ndarray) or isinstance(b, np.ndarray):
            return None
        if isinstance(a, (ModRef, ExtRef, FuncInfo)) or isinstance(b, (ModRef, ExtRef, FuncInfo)):
            return None
        import operator as op

        fn = {ast.Eq: op.eq, ast.NotEq: op.ne, ast.Lt: op.lt, ast.LtE: op.le, ast.Gt: op.gt, ast.GtE: op.ge}.get(type(o))
        if fn is None:
            return None
        try:
            if isinstance(a, tuple) and isinstance(b, tuple):
                return fn(tuple(int(x) for x in a), tuple(int(x) for x in b))
            return bool(fn(a, b))
        except Exception:
            return None

    def decide(self, test):
        key = norm_text(ast.unparse(test))
        if self.it.decider is not None:
            v = self.it.decider(self, test)
            if v is not None:
                self.it.assume(f"data-dependent test `{key}` in {self.fi.qualname} taken as {v} (generic position)")
                return v
        if key in self.it.decisions:
            v = self.it.decisions[key]
            self.it.assume(f"data-dependent test `{key}` in {self.fi.qualname} taken as {v}")
            return v
        raise Unsupported(f"data-dependent test `{key}` in {self.fi.qualname} (line {test.lineno}) has no entry in the decision table")

    def truth(self, v, node):
        if isinstance(v, bool):
            return v
        if v is None:
            return False
        if isinstance(v, (int, float)):
            return bool(v)
        if isinstance(v, sp.Basic) and not v.free_symbols:
            return bool(v)
        if isinstance(v, (list, tuple, dict, str)):
            return bool(v)
        if isinstance(v, (Namespace, FuncInfo, ClassInfo, Closure)):
            return True
        return self.decide(node)

    def attr(self, v, name, node):
        if isinstance(v, ModRef):
            r = self.it.ix.resolve_dotted(f"{v.dotted}.{name}")
            if isinstance(r, Module):
                return ModRef(r.name)
            if isinstance(r, (FuncInfo, ClassInfo)):
                return r
            if isinstance(r, tuple) and r[0] == "const":
                other = Frame(self.it, _ModuleFunc(r[1]), {}, None)
                return other.global_name(r[2])
            raise Unsupported(f"attribute {v.dotted}.{name}")
        if isinstance(v, ExtRef):
            d = f"{v.dotted}.{name}"
            if d in self.it.ext_consts:
                return self.it.ext_consts[d]
            if d == "numpy.pi" or d == "math.pi":
                return sp.pi
            if d in ("numpy.newaxis",):
                return None
            return ExtRef(d)
        if isinstance(v, np.ndarray):
            if name == "T":
                return v.T
            if name == "shape":
                return tuple(v.shape)
            if name == "ndim":
                return v.ndim
            if name == "size":
                return v.size
            if name in ("sum", "dot", "reshape", "copy", "prod", "mean", "transpose", "astype", "flatten", "ravel", "tolist",
                        "max", "min", "ptp", "argmax", "argmin", "squeeze"):
                return ("method", v, name)
            raise Unsupported(f"array attribute .{name}")
        if isinstance(v, Namespace):
            if hasattr(v, name):
                return getattr(v, name)
            raise Unsupported(f"attribute {name} of {v._cls}")
        if isinstance(v, dict) and name in ("items", "keys", "values", "get"):
            return ("method", v, name)
        if isinstance(v, list) and name in ("append", "extend", "index"):
            return ("method", v, name)
        if isinstance(v, sp.Basic) and name in ("sum", "copy"):
            return ("method", v, name)
        if isinstance(v, str) and name in ("lower", "upper", "strip"):
            return ("method", v, name)
        if isinstance(v, ClassInfo):
            mem = self.it.ix.member(v, name)
            if mem.get("method"):
                return mem["method"]
        raise Unsupported(f"attribute .{name} of {type(v).__name__} in `{ast.unparse(node)[:60]}`")

    def callexpr(self, e):
        f = self.ev(e.func)
        args = []
        for a in e.args:
            if isinstance(a, ast.Starred):
                args.extend(self.iterate(self.ev(a.value)))
            else:
                args.append(self.ev(a))
        kw = {}
        for k in e.keywords:
            if k.arg is None:
                kw.update(self.ev(k.value))
            else:
                kw[k.arg] = self.ev(k.value)
        if isinstance(f, ExtRef):
            if f.dotted.endswith(".dtype") or f.dotted.split(".")[-1] in ("float64", "int64") and not args:
                return f
            return self.it.ext_call(f.dotted, args, kw, e)
        if isinstance(f, FuncInfo):
            return self.it.call(f, args, kw)
        if isinstance(f, Closure):
            return self.it.call(f.fi, args, kw, closure_env=f.env)
        if isinstance(f, PyHook):
            return f.fn(*args, **kw)
        if isinstance(f, ClassInfo):
            # dataclass-style construction
            fields = [st.target.id for st in f.node.body if isinstance(st, ast.AnnAssign) and isinstance(st.target, ast.Name)]
            defaults = {st.target.id: st.value for st in f.node.body if isinstance(st, ast.AnnAssign) and st.value is not None}
            vals = {}
            for name, v in zip(fields, args):
                vals[name] = v
            vals.update(kw)
            for name in fields:
                if name not in vals:
                    if name in defaults:
                        vals[name] = self.ev(defaults[name])
                    else:
                        raise Unsupported(f"constructor {f.name}: missing {name}")
            return Namespace(f.name, **vals)
        if isinstance(f, tuple) and f and f[0] == "method":
            _, recv, name = f
            return self.method(recv, name, args, kw, e)
        raise Unsupported(f"call of {type(f).__name__} in `{ast.unparse(e)[:60]}`")

    def method(self, recv, name, args, kw, node):
        if isinstance(recv, np.ndarray):
            if name == "sum":
                return _sum(recv, **{k: v for k, v in kw.items() if k == "axis"}) if not args else _sum(recv, axis=int(args[0]))
            if name == "prod":
                return _prod(recv, **{k: v for k, v in kw.items() if k == "axis"})
            if name == "dot":
                return np.dot(recv, arr(args[0]))
            if name == "reshape":
                shp = args[0] if len(args) == 1 else tuple(args)
                return recv.reshape(tuple(int(x) for x in shp) if isinstance(shp, (tuple, list)) else int(shp))
            if name in ("copy", "astype"):
                return recv.copy()
            if name in ("flatten", "ravel"):
                return recv.reshape(-1).copy()
            if name == "squeeze":
                return recv.squeeze()
            if name == "transpose":
                return recv.T
            if name == "tolist":
                return recv.tolist()
            if name in ("max", "min", "ptp", "argmax", "argmin"):
                return self.it.ext_call("numpy." + name, [recv] + list(args), kw, node)
            if name == "mean":
                ax = kw.get("axis", args[0] if args else None)
                n = recv.size if ax is None else recv.shape[int(ax)]
                return _sum(recv, axis=None if ax is None else int(ax)) / sp.Integer(n)
        if isinstance(recv, dict):
            if name == "items":
                return list(recv.items())
            if name == "keys":
                return list(recv.keys())
            if name == "values":
                return list(recv.values())
            if name == "get":
                return recv.get(args[0], args[1] if len(args) > 1 else None)
        if isinstance(recv, list):
            if name == "append":
                recv.append(args[0])
                return None
            if name == "extend":
                recv.extend(args[0])
                return None
            if name == "index":
                return recv.index(args[0])
        if isinstance(recv, sp.Basic) and name == "sum":
            return recv
        if isinstance(recv, str) and name in ("lower", "upper", "strip"):
            return getattr(recv, name)()
        raise Unsupported(f"method .{name} in `{ast.unparse(node)[:60]}`")

    # ---------------------------------------------------------- statements
    def bind(self, target, value):
        if isinstance(target, ast.Name):
            self.env[target.id] = value
            key = (self.fi.qualname, target.id)
            if self.it.trace is not None:
                self.it.trace.setdefault(key, []).append(value.copy() if isinstance(value, np.ndarray) else value)
            if key in self.it.overrides:
                self.it.captured[key] = value
                self.env[target.id] = self.it.overrides[key]
        elif isinstance(target, (ast.Tuple, ast.List)):
            vals = self.iterate(value)
            if len(vals) != len(target.elts):
                raise Unsupported("unpack length mismatch")
            for t, v in zip(target.elts, vals):
                self.bind(t, v)
        elif isinstance(target, ast.Subscript):
            base = self.ev(target.value)
            idx = self.index(target.slice)
            if isinstance(base, np.ndarray):
                v = arr(value)
                try:
                    base[idx] = v
                except Exception as ex:
                    raise Unsupported(f"store `{ast.unparse(target)}`: {ex}")
                if self.it.trace is not None and isinstance(target.value, ast.Name):
                    self.it.trace.setdefault((self.fi.qualname, target.value.id), []).append(base.copy())
            elif isinstance(base, (dict, list)):
                base[idx] = value
            else:
                raise Unsupported(f"store into {type(base).__name__}")
        elif isinstance(target, ast.Attribute):
            base = self.ev(target.value)
            if isinstance(base, Namespace):
                base.__dict__[target.attr] = value
            elif isinstance(base, np.ndarray) and target.attr == "flags":
                pass
            else:
                raise Unsupported(f"attribute store on {type(base).__name__}")
        else:
            raise Unsupported("assignment target")

    def block(self, body):
        for st in body:
            self.stmt(st)

    def stmt(self, st):
        if isinstance(st, ast.Expr):
            if isinstance(st.value, ast.Constant):
                return
            self.ev(st.value)
            return
        if isinstance(st, ast.Assign):
            v = self.ev(st.value)
            for t in st.targets:
                self.bind(t, v)
            return
        if isinstance(st, ast.AnnAssign):
            if st.value is not None:
                self.bind(st.target, self.ev(st.value))
            return
        if isinstance(st, ast.AugAssign):
            cur = self.ev(st.target)
            v = self.binop(st.op, cur, self.ev(st.value), st)
            self.bind(st.target, v)
            return
        if isinstance(st, ast.Return):
            raise _Return(self.ev(st.value) if st.value is not None else None)
        if isinstance(st, ast.If):
            if self.truth(self.ev(st.test), st.test):
                self.block(st.body)
            else:
                self.block(st.orelse)
            return
        if isinstance(st, ast.For):
            for item in self.iterate(self.ev(st.iter)):
                self.bind(st.target, item)
                try:
                    self.block(st.body)
                except _Break:
                    break
                except _Continue:
                    continue
            else:
                self.block(st.orelse)
            return
        if isinstance(st, ast.Break):
            raise _Break()
        if isinstance(st, ast.Continue):
            raise _Continue()
        if isinstance(st, ast.Pass):
            return
        if isinstance(st, (ast.FunctionDef, ast.ClassDef, ast.Import, ast.ImportFrom, ast.Global, ast.Nonlocal)):
            return
        if isinstance(st, ast.Raise):
            raise Unsupported(f"path reaches `{ast.unparse(st)[:60]}` in {self.fi.qualname}")
        if isinstance(st, ast.Assert):
            try:
                ok = self.truth(self.ev(st.test), st.test)
            except Unsupported:
                self.it.assume(f"assertion `{ast.unparse(st.test)[:60]}` in {self.fi.qualname} assumed to hold")
                return
            if not ok:
                raise Unsupported(f"assertion fails statically: `{ast.unparse(st.test)[:60]}`")
            return
        if isinstance(st, ast.Try):
            self.block(st.body)
            self.block(st.orelse)
            self.block(st.finalbody)
            return
        raise Unsupported(f"statement {type(st).__name__} in {self.fi.qualname} line {st.lineno}")


class _ModuleFunc:
    """pseudo FuncInfo so module-level constants can be evaluated in a Frame"""

    def __init__(self, module):
        self.module = module
        self.qualname = f"<module {module.name}>"
        self.nested = {}
        self.parent = None


# ----------------------------------------------------------------------------- helpers for rules
def tolerant_block(frame, body, skipped):
    """execute statements one by one; a statement E3 cannot translate is skipped (recorded) unless the rule
    supplies its value through `overrides`; `if` tests that cannot be decided skip the whole statement"""
    for st in body:
        if isinstance(st, ast.If):
            try:
                t = frame.truth(frame.ev(st.test), st.test)
            except Unsupported as e:
                t = frame.it.decider(frame, st.test) if frame.it.decider is not None else None
                if t is None:
                    skipped.append(f"line {st.lineno}: {str(e)[:60]}")
                    continue
                frame.it.assume(f"test `{ast.unparse(st.test)[:60]}` in {frame.fi.qualname} taken as {t} (decided by the rule)")
            tolerant_block(frame, st.body if t else st.orelse, skipped)
            continue
        try:
            frame.stmt(st)
        except Unsupported as e:
            key = (frame.fi.qualname, st.targets[0].id) if isinstance(st, ast.Assign) and isinstance(st.targets[0], ast.Name) else None
            if key in frame.it.overrides:
                frame.env[key[1]] = frame.it.overrides[key]  # the statement's own value is not needed: the rule supplies it
            else:
                skipped.append(f"line {st.lineno}: {str(e)[:60]}")


def symbols_array(prefix, shape):
    out = np.empty(shape, dtype=object)
    for idx in np.ndindex(shape):
        out[idx] = sp.Symbol(prefix + "".join(str(i) for i in idx), real=True)
    return out


def is_zero(expr):
    """decide expr == 0 for polynomial / rational expressions by normal form"""
    if isinstance(expr, np.ndarray):
        return all(is_zero(e) for e in expr.flat)
    e = sp.sympify(expr)
    if e == 0:
        return True
    e = sp.expand(e)
    if e == 0:
        return True
    if any(isinstance(a, sp.Pow) and a.exp.is_negative for a in sp.preorder_traversal(e)):
        num, _ = sp.fraction(sp.together(e))
        return sp.expand(num) == 0
    return False
