"""must-pass-through: every result of a function is computed after (dominated by) a call of the routine that decides it,
except under a guard that makes the decision trivial (nothing / a single item to decide about)."""
from __future__ import annotations

import ast
import re

from .report import key_of


def _trivial(text):
    """guard text implies at most one item: len(X) == 0/1, len(X) < 2, len(X) <= 1, emptiness"""
    from .provenance import is_emptiness
    if is_emptiness(text):
        return True
    t = text.replace(" ", "")
    return re.fullmatch(r"len\([^()]*(\([^()]*\))?[^()]*\)(==1|<=1|<2|==0|<1)", t) is not None


def pass_through_rule(run, ix, rule, prop, spec, core, what, why):
    from .provenance import Prov
    run.rule(rule, what)
    try:
        f = ix.inlined(ix.func(spec))
    except Exception:
        run.instance(rule, spec, "anchor not found - NOT decided", True, nontrivial=False)
        run.assume(f"{spec}: not found")
        return
    pv = Prov(ix, f)
    core_stmts = [st for st in ast.walk(f.node) if isinstance(st, ast.stmt) and not isinstance(st, (ast.FunctionDef, ast.If, ast.For, ast.While, ast.With, ast.Try))
                  and any(isinstance(c, ast.Call) and getattr(c.func, "id", getattr(c.func, "attr", "")) == core for c in ast.walk(st))]
    cn = [n for st in core_stmts for n in pv.cfg.nodes_of.get(id(st), [])]
    if not cn:
        run.instance(rule, f.where, f"`{core}` is not called in {f.qualname} - NOT decided", True, nontrivial=False)
        run.assume(f"{f.qualname}: no call of {core}")
        return
    n = 0
    for r in ast.walk(f.node):
        if not isinstance(r, ast.Return) or not pv.cfg.nodes_of.get(id(r)):
            continue
        if any(r in ast.walk(g.node) for g in f.nested.values()):
            continue
        n += 1
        rn = pv.cfg.nodes_of[id(r)][0]
        # every path from the entry to this return passes one of the core calls (they may sit in alternative branches)
        import networkx as nx
        g2 = pv.cfg.g.copy()
        g2.remove_nodes_from([c for c in cn if c != rn])
        through = rn in cn or not (rn in g2 and nx.has_path(g2, pv.cfg.entry, rn))
        if through:
            run.instance(rule, f.where, f"{f.qualname}: return at line {r.lineno} is computed after `{core}`", True)
            continue
        g = pv.guards(r)
        ok = any(_trivial(x) for x in g)
        run.instance(rule, f.where, f"{f.qualname}: return before `{core}` under {g}", ok)
        if not ok:
            run.violation(rule, f"{f.module.rel}:{r.lineno} {f.qualname}", f"`{f.qualname}` returns at line {r.lineno} under {g[-1:] or ['no condition']} without going through `{core}`: {why}",
                          key=key_of(f"{prop}-{rule}", f.qualname, (g or [''])[-1][:60]))
    run.floor(f"returns of {spec}", n, 1)
