"""Shared obligations for functions that keep memo entries across a change of hashed state (C01, C14, ...)."""
from __future__ import annotations

from .cachesim import CacheSim
from .report import AnalysisError, key_of

COUNT_PRESERVING = {"transform", "fliplr", "negate"}


def check_surgery(run, ef, f, cls, owner, hashed, rhs_kind, footprint, all_keys, invariance, companions, extra_ok, prop,
                  r2="R2", r2b="R2b", r6="R6", r8="R8", transport_ok=None):
    """simulate `f`; returns False when the function performs no cache surgery"""
    try:
        sim = CacheSim(ef, f, cls, owner, hashed, rhs_kind)
    except RecursionError:
        raise AnalysisError(f"recursion while building CFG of {f.qualname}")
    if not sim.has_surgery():
        return False
    results, npaths = sim.simulate()
    for r in results:
        if r["unknown_exclude"]:
            raise AnalysisError(f"{f.where}: cannot evaluate an exclude= set statically (unclassified cache surgery)")
        carried = {(w[0], w[1]) for w in r["carried"]}
        if carried:
            survivors = (set(all_keys) - r["dropped"]) if r["alive_all"] else {k for k in r["alive"] if k != "*"}
            if survivors and r.get("unverified"):
                run.instance(r8, f.where, f"entries {sorted(survivors)[:4]}... are re-certified but the cache was not verified first ({r['unverified']})", False)
                run.violation(r8, f.where,
                              f"memo entries ({', '.join(sorted(survivors)[:4])}{', ...' if len(survivors) > 4 else ''}) are kept and re-certified for the "
                              f"new data although the cache was not verified before the {r['unverified']}: entries that predate an earlier in-place "
                              f"edit of the data survive",
                              key=key_of(f"{prop}-{r8}", f.qualname))
            elif survivors:
                run.instance(r8, f.where, "cache verified before the first write / lock entry on this path", True)
            for k in sorted(survivors):
                if k in r["stored"]:
                    run.instance(r2, f.where, f"`{k}` re-assigned by the function on the path writing {sorted(carried)}", True)
                    continue
                fp = footprint(k)
                if fp is None:
                    run.instance(r2, f.where, f"`{k}` kept but no producer of that name exists (dead key)", True, nontrivial=False)
                    continue
                for (d, kind) in sorted(carried):
                    deps = {t for (x, t) in fp if x == d or x == "*" or d == "*"}
                    if not deps:
                        run.instance(r2, f.where, f"`{k}` does not read `{d}`", True)
                        continue
                    if deps == {"shape"} and kind in COUNT_PRESERVING:
                        run.instance(r2, f.where, f"`{k}` reads only the size of `{d}`; the {kind} write preserves it", True)
                        continue
                    if (k, d, kind) in invariance:
                        run.instance(r2, f.where, f"`{k}` vs {d}:{kind}: {invariance[(k, d, kind)]}", True)
                        continue
                    if extra_ok is not None and extra_ok(f, k, d, kind):
                        run.instance(r2, f.where, f"`{k}` kept across {d}:{kind} under the function's own guard (see rule text)", True)
                        continue
                    run.instance(r2, f.where, f"`{k}` survives the write of `{d}` ({kind})", False)
                    site = next((w[2] for w in r["carried"] if w[0] == d), "")
                    run.violation(r2, f.where,
                                  f"memo `{k}` (reads {sorted(t for x, t in fp if x == d or x == '*')} of `{d}`) survives `{site}` "
                                  f"[{kind}] and is re-certified for the new data hash: a value read before the mutation is served after it",
                                  key=key_of(f"{prop}-{r2}", f.qualname, k, d, kind))
            if transport_ok is not None:
                for k in sorted(r["explicit"] & (survivors if not r["alive_all"] else set(all_keys))):
                    ok = k in transport_ok
                    run.instance(r2, f.where, f"`{k}` is assigned a computed value by the function: {transport_ok.get(k, 'NOT in the reviewed transport table')}", ok)
                    if not ok:
                        run.violation(r2, f.where,
                                      f"the function computes a value for memo `{k}` itself and keeps it across its write of {sorted(carried)}: "
                                      f"`{k}` is not in the table of reviewed transports, so nothing establishes that this shortcut equals recomputation",
                                      key=key_of(f"{prop}-{r2}", f.qualname, "transport", k))
            for k, prod in (companions or {}).items():
                if prod in survivors and k not in survivors and k not in r["stored"]:
                    run.instance(r6, f.where, f"`{prod}` kept but its by-product `{k}` dropped", False)
                    run.violation(r6, f.where,
                                  f"`{prod}` is kept while `{k}` (stored only as its by-product) is dropped: the `{k}` getter then returns None",
                                  key=key_of(f"{prop}-{r6}", f.qualname, prod, k))
        for (k, written, text) in sorted(r["stale_reads"]):
            if k == "*":
                continue
            fp = footprint(k)
            if fp is None:
                continue
            dep = {x for (x, t) in fp if x in written or x == "*"}
            if not dep:
                continue
            run.instance(r2b, f.where, f"`{k}` read under the lock after `{sorted(dep)}` was written (at `{text}`)", False)
            run.violation(r2b, f.where,
                          f"memo `{k}` (depends on {sorted(dep)}) may be served stale at `{text}`: verification is suspended by the "
                          f"cache lock and {sorted(written)} was already written inside it",
                          key=key_of(f"{prop}-{r2b}", f.qualname, k))
    return True
