#!/venv/bin/python
"""Re-run every behaviour-preserving refactor stored under benign/<ID>-r<round><x>/ against every registered check and
rewrite benign/MATRIX.md.  Each of them was written by a blind sub-agent (property text + scratch worktree only) and was
checked by its author against the tests and a bit-identical output digest; every check must stay silent (exit 0) on
every one of them.  Scratch copies live under the system temp directory and are removed at once; /repo is never patched."""
import concurrent.futures as cf
import json
import os
import shutil
import subprocess
import sys
import tempfile

VERIF = os.path.dirname(os.path.abspath(__file__))
CHECKS = [c["property_id"] for c in json.load(open(os.path.join(VERIF, "MANIFEST.json")))["checks"]]


def runcheck(args):
    tmp, c = args
    r = subprocess.run([os.path.join(VERIF, "check"), c, "--repo", tmp], capture_output=True, text=True)
    viol = [l.strip()[:260] for l in (r.stdout + r.stderr).splitlines() if (l.startswith("  ") and "]" in l and "[" in l and not l.startswith("  rule ")) or "ANALYSIS-ERROR" in l]
    return c, r.returncode, viol


def main():
    root = os.path.join(VERIF, "benign")
    ids = sys.argv[1:] or sorted(d for d in os.listdir(root) if os.path.exists(os.path.join(root, d, "patch.diff")))
    rows, alarms = [], 0
    for bid in ids:
        tmp = tempfile.mkdtemp(prefix=f"verif-benign-{bid}-")
        try:
            shutil.copytree("/repo/trimesh", tmp + "/trimesh", ignore=shutil.ignore_patterns("__pycache__", "*.pyc"))
            r = subprocess.run(["patch", "-p1", "-s", "-f", "-d", tmp, "-i", os.path.join(root, bid, "patch.diff")], capture_output=True, text=True)
            if r.returncode != 0:
                print(bid, "patch does not apply (the tree moved on)")
                rows.append((bid, "patch does not apply", ""))
                continue
            with cf.ThreadPoolExecutor(16) as ex:
                out = list(ex.map(runcheck, [(tmp, c) for c in CHECKS]))
        finally:
            shutil.rmtree(tmp, ignore_errors=True)
        hits = {c: (rc, viol) for c, rc, viol in out if rc != 0}
        alarms += bool(hits)
        print(bid, "ALARMS " + str({c: rc for c, (rc, _) in hits.items()}) if hits else "silent")
        for c, (rc, viol) in hits.items():
            for l in viol[:2]:
                print("     ", c, l[:230])
        first = ""
        try:
            first = open(os.path.join(root, bid, "notes.md")).read().strip().splitlines()[0].lstrip("# ").strip()[:110]
        except OSError:
            pass
        rows.append((bid, "silent" if not hits else "ALARM: " + ", ".join(f"{c} (exit {rc})" for c, (rc, _) in hits.items()), first))
    if not sys.argv[1:]:
        with open(os.path.join(root, "MATRIX.md"), "w") as f:
            f.write("| refactor | all checks | what it does |\n|---|---|---|\n")
            for r in rows:
                f.write("| " + " | ".join(r) + " |\n")
    print(f"{len(rows)} behaviour-preserving refactors: {alarms} raise an alarm in some check")
    return 1 if alarms else 0


if __name__ == "__main__":
    sys.exit(main())
