#!/venv/bin/python
"""Re-run every behaviour-preserving refactor stored under benign/<ID>-r<round><x>/ against every registered check and
rewrite benign/MATRIX.md.  Each of them was written by a blind sub-agent (property text + scratch worktree only) and was
checked by its author against the tests and a bit-identical output digest; every check must stay silent (exit 0) on
every one of them.  Scratch copies live under the system temp directory and are removed at once; /repo is never patched."""
import os
import sys

sys.path.insert(0, os.path.dirname(os.path.abspath(__file__)))
from sa.matrix import run_matrix  # noqa: E402

VERIF = os.path.dirname(os.path.abspath(__file__))


def main():
    root = os.path.join(VERIF, "benign")
    ids = sys.argv[1:] or sorted(d for d in os.listdir(root) if os.path.exists(os.path.join(root, d, "patch.diff")))
    rows = {}

    def done(bid, res):
        first = ""
        try:
            first = open(os.path.join(root, bid, "notes.md")).read().strip().splitlines()[0].lstrip("# ").strip()[:110]
        except (OSError, IndexError):
            pass
        if res is None:
            print(bid, "patch does not apply (the tree moved on)", flush=True)
            rows[bid] = (bid, "patch does not apply", first)
            return
        hits = {c: (rc, v) for c, (rc, v) in res.items() if rc != 0}
        print(bid, ("ALARMS " + str({c: rc for c, (rc, _) in hits.items()})) if hits else "silent", flush=True)
        for c, (rc, v) in hits.items():
            for l in v[:2]:
                print("     ", c, l[:230])
        rows[bid] = (bid, "silent" if not hits else "ALARM: " + ", ".join(f"{c} (exit {rc})" for c, (rc, _) in hits.items()), first)

    run_matrix({b: os.path.join(root, b, "patch.diff") for b in ids}, progress=done)
    if not sys.argv[1:]:
        with open(os.path.join(root, "MATRIX.md"), "w") as f:
            f.write("| refactor | all checks | what it does |\n|---|---|---|\n")
            for b in sorted(rows):
                f.write("| " + " | ".join(rows[b]) + " |\n")
    alarms = sum(1 for r in rows.values() if r[1] != "silent")
    print(f"{len(rows)} behaviour-preserving refactors: {alarms} raise an alarm in some check")
    return 1 if alarms else 0


if __name__ == "__main__":
    sys.exit(main())
