#!/venv/bin/python
"""Confirm a seeded change written by a blind sub-agent and store it under seeded/<ID>/.

usage: tools_confirm_seed.py <worktree> <out-subdir A|B> <seed id, e.g. C09-g> <round>

In the sub-agent's scratch worktree (a checkout of /repo's HEAD outside /repo and /verif): the demonstration must exit 0
on the unchanged tree, non-zero with patch.diff applied, and the repository's test suite must still pass with the patch
(tests/test_ray.py::RayTests::test_on_edge is unstable on the unchanged tree and is deselected; a wall-clock assertion
that trips under load is re-run alone).  The worktree is reset afterwards.  Nothing is ever applied to /repo."""
import json
import os
import re
import shutil
import subprocess
import sys

VERIF = os.path.dirname(os.path.abspath(__file__))
PY = "/venv/bin/python"


def sh(cmd, cwd, env=None, timeout=3600):
    e = dict(os.environ)
    e.update(env or {})
    r = subprocess.run(cmd, cwd=cwd, env=e, capture_output=True, text=True, timeout=timeout, shell=isinstance(cmd, str))
    return r.returncode, (r.stdout + r.stderr)


def main():
    wt, sub, sid, rnd = sys.argv[1], sys.argv[2], sys.argv[3], int(sys.argv[4])
    src = os.path.join(wt, "out", sub)
    prop = sid.split("-")[0]
    res = {"id": sid, "ok": False}
    sh("git checkout -q -- . && git clean -fdq -e out", wt)
    base = sh("git rev-parse --short HEAD", wt)[1].strip()
    env = {"PYTHONPATH": wt, "PYTHONDONTWRITEBYTECODE": "1"}
    rc0, out0 = sh([PY, os.path.join(src, "demo.py")], wt, env, 600)
    rc_a, out_a = sh(["git", "apply", "--check", os.path.join(src, "patch.diff")], wt)
    if rc0 != 0 or rc_a != 0:
        res["why"] = f"demo on unchanged tree rc={rc0}; patch applies rc={rc_a}: {(out0 + out_a)[-400:]}"
        print(json.dumps(res))
        return 1
    sh(["git", "apply", os.path.join(src, "patch.diff")], wt)
    touched = sh("git diff --name-only", wt)[1].split()
    if not touched or any(not t.startswith("trimesh/") for t in touched):
        res["why"] = f"patch touches {touched}"
        sh("git checkout -q -- . && git clean -fdq -e out", wt)
        print(json.dumps(res))
        return 1
    rc1, out1 = sh([PY, os.path.join(src, "demo.py")], wt, env, 600)
    rct, outt = sh(f"{PY} -m pytest -q -p no:cacheprovider -n 6 tests --deselect tests/test_ray.py::RayTests::test_on_edge 2>&1 | tail -25", wt, None, 3600)
    tail = outt.strip().splitlines()[-1] if outt.strip() else ""
    failed = re.findall(r"^(?:FAILED|ERROR) (\S+)", outt, re.M)
    rerun = ""
    if failed and all("test_obb_mesh_large" in f or "time" in f.lower() for f in failed):
        rc2, out2 = sh(f"{PY} -m pytest -q -p no:cacheprovider {' '.join(failed)} 2>&1 | tail -3", wt, None, 1800)
        rerun = out2.strip().splitlines()[-1] if out2.strip() else ""
        if " passed" in rerun and "failed" not in rerun:
            failed = []
    sh("git checkout -q -- . && git clean -fdq -e out", wt)
    good = rc1 != 0 and not failed and " passed" in tail
    res.update(ok=good, demo_unchanged=rc0, demo_patched=rc1, tests=tail, failed=failed, rerun=rerun)
    if not good:
        res["why"] = f"demo patched rc={rc1}; failed tests {failed}; tail {tail}; demo output: {out1[-300:]}"
        print(json.dumps(res))
        return 1
    dst = os.path.join(VERIF, "seeded", sid)
    os.makedirs(dst, exist_ok=True)
    for f in ("patch.diff", "demo.py", "notes.md"):
        if os.path.exists(os.path.join(src, f)):
            shutil.copy(os.path.join(src, f), os.path.join(dst, f))
    notes = open(os.path.join(src, "notes.md")).read() if os.path.exists(os.path.join(src, "notes.md")) else ""
    title = notes.strip().splitlines()[0].lstrip("# ").strip() if notes.strip() else sid
    m = re.search(r"(?is)(?:needed|needs|what is needed)[^\n]*manifest[^\n]*\n(.*?)(?:\n#|\n\*\*[A-Z]|\Z)", notes)
    needs = (m.group(1).strip() if m else "see notes.md")[:1500]
    meta = {
        "property": prop, "id": sid, "round": rnd, "title": title, "needs_to_manifest": needs,
        "origin": f"round {rnd}: written by a fresh sub-agent given only the property text, the one-line titles of the earlier seeded changes of that property and a scratch git "
                  "worktree under /tmp, asked for breakage that needs something specific to manifest (two cooperating sites, a multi-step history, an unusual input, a fault "
                  "at a particular point); nothing from /verif",
        "what_i_ran": {
            "base_commit": base,
            "steps": f"scratch worktree at base; `python demo.py` on the unchanged tree (exit {rc0}); `git apply patch.diff`; `python demo.py` (exit {rc1}); "
                     f"`pytest -n 6 tests --deselect tests/test_ray.py::RayTests::test_on_edge` -> {tail}" + (f"; wall-clock test re-run alone: {rerun}" if rerun else "") + "; worktree reset",
            "demo_output_patched": out1.strip().splitlines()[-3:],
        },
    }
    json.dump(meta, open(os.path.join(dst, "meta.json"), "w"), indent=1)
    print(json.dumps(res))
    return 0


if __name__ == "__main__":
    sys.exit(main())
