# (category, technique, level text, level note / trusted base, DESIGN.md section)
CHECKS["C02"] = (
    "other",
    "static analysis: set comparison of numpy.ndarray's byte-changing entry points against TrackedArray's overrides; CFG dominators for flag-before-delegate; structural checks of container hashes",
    "Decides the structural clause of C02 for every program at once: no ndarray entry point that rewrites the receiver's bytes reaches numpy without the dirty flag being raised first; finalize/hash ordering; container hashes fold in every member. Does not decide hash values; routes that bypass the object's methods are a listed known finding. Values stored into a DataStore are never untracked aliases of a caller's array (asanyarray or copy, not asarray / view(ndarray)); descriptor properties (flat, real, imag, strides) raise the flag in their setters.",
    "Trusted: the frozen table of which ndarray methods mutate (measured on numpy 2.x, DESIGN C02), Python's attribute lookup, networkx dominators.",
    "DESIGN.md#c02",
)
_PENDING = "check under construction in this round (see DESIGN.md for the planned rule); not claimed until it runs clean"
for _p in ["C01","C03","C04","C05","C06","C07","C08","C09","C10","C11","C14","C15","C17","C18","C19","C20"]:
    NA[_p] = _PENDING
NA["C12"] = "every clause compares floating-point query results with an all-triangles oracle or depends on rtree/embree pruning geometry; nothing in the statement is decidable from code shape (staleness of query structures is covered under C01)"
NA["C13"] = "losslessness of run-length codecs and equality of encodings with the dense array are value-level facts over all sequences; no sound static argument in reach bounds them"
NA["C16"] = "containment, convexity, minimality and rigidity are numerical statements about qhull / optimiser output on runtime coordinates"

CHECKS["C06"] = (
    "other",
    "static analysis: interval abstract interpretation of the bit-packing block (per admitted column count), dtype-overflow tracking, call-graph funnel check",
    "Decides, for every integer input admitted by the range guard read from the source and every packed column count, that hashable_rows is injective (fields disjoint, no intermediate overflow, top bit <= 63), that the fallback views exact row bytes, and that unique_rows/group_rows compare rows only through it. Value semantics of group/blocks/merge_runs/group_min/boolean_rows and float quantisation are not decided. Functions with a `digits` parameter read their raw argument only to convert or measure it (R7); group() compares integer neighbours exactly, differences only for floats (R8).",
    "Trusted: transfer functions of the interval evaluator (+, -, *, <<, astype, floor/ceil), numpy 2 rule that an out-of-range python int operand raises; XOR/OR of disjoint bit fields is injective.",
    "DESIGN.md#c06",
)
NA.pop("C06", None)

CHECKS["C05"] = (
    "other",
    "static analysis: table extraction of the face->edge layout from its single producer; canonical-form (reaching-definition inlined, callee-resolved) structural rules for every consumer and counting formula; finite evaluation of winding-test column selections; no-shortcut rule over every return of the topological queries",
    "Decides for all face arrays the contract every edge-based topological query relies on: three winding-ordered directed edges per face, contiguous, face index repeated in step; consumers regroup with the same width and take edges and edge->face index from one producer call (sorted within the pair before grouping); adjacency and watertightness are groups of exactly two equal sorted edges; the winding tests compare head with tail of the twin edge; euler_number is V - E(unique) + F; split is connected components of face adjacency over every face; and no query returns an answer that bypasses its counting computation except under an emptiness test. The combinatorial equalities produced by grouping / csgraph and the angle-defect sum are not decided. graph.neighbors collects neighbours in sets.",
    "Trusted: numpy reshape/tile/repeat semantics as modelled; canonicalisation in sa/provenance.py; the consumer and query lists were enumerated by reading the repository and are frozen in the checker.",
    "DESIGN.md#c05",
)
NA.pop("C05", None)
CHECKS["C11"] = (
    "other",
    "static analysis: exhaustive finite-domain (27 sign vectors) abstract evaluation of the case-table ASTs of mesh_plane.triangle_cases and slice_faces_plane; handler preconditions read from handler bodies",
    "Decides, for every mesh and plane at once, that the sign-pattern case analysis is a partition consistent with the handlers it dispatches to: codes injective and in range, masks disjoint, each mask selects exactly the patterns its handler's indexing assumes, one on-edge pattern only, slice inside/cut/outside classification and quad/triangle split consistent. Geometry of the produced segments, closedness, area/volume additivity and capping are not decided. Once slice_mesh_plane re-indexes the vertices it re-indexes the faces on every path (R11); lines_to_path hands every segment on (R12).",
    "Trusted: the row-wise interpreter's transfer functions (sort, shift-add, boolean key table, sums, logical_and); enumeration of {-1,0,1}^3 is complete for the abstract domain because classification depends on signs only.",
    "DESIGN.md#c11",
)
NA.pop("C11", None)

CHECKS["C03"] = (
    "proof",
    "static analysis: algebraic abstract interpretation (AST -> sympy polynomials over a symbolic tetrahedron) and polynomial normal-form identities against exact simplex integrals",
    "Proves, for every closed consistently wound triangle surface, every density, centre-of-mass override and frame, that triangles.mass_properties / cross / area, inertia.transform_inertia and Trimesh.moment_inertia_frame compute the exact integrals: ten moment identities on a symbolic tetrahedron, antisymmetry + cyclic invariance per triangle (so interior faces of any decomposition cancel), assembly of centre of mass and inertia, parallel-axis and rotation law from raw second moments, constant-tolerance degenerate guard, and the Trimesh forwarders. Floating-point rounding is outside the claim. The moment polynomials are evaluated on a float64 conversion of the input (O9).",
    "Trusted: sympy expand/Poly/together; the E3 transfer functions in sa/alg.py; the Dirichlet simplex formula; the chain-decomposition argument in DESIGN.md C03. Assumes generic position for the |volume| < tol.zero branch.",
    "DESIGN.md#c03",
)
NA.pop("C03", None)
CHECKS["C19"] = (
    "proof",
    "static analysis: algebraic abstract interpretation of transformations.py (sin/cos as polynomial symbols), identities modulo s^2+c^2=1; constant-table extraction",
    "Proves for all angles, axes and points (generic branches) that the 24 Euler conventions of euler_matrix are the products of elementary rotations their names spell, that euler_from_matrix reads the matching entries, that quaternion_from_euler yields unit quaternions of the same rotations, that rotation_matrix is the orthonormal det+1 Rodrigues form fixing its point, that in the gimbal-lock branch (middle angle 0 / pi or +-pi/2 exactly) the angles returned by euler_from_matrix rebuild the matrix for all 24 conventions, that quaternion_matrix(q) is the rotation of q/|q| (orthonormal, det +1, same for q and -q), that each of the four largest-diagonal branches of quaternion_from_matrix(isprecise=True) returns +-q of unit norm, that quaternion_multiply composes rotations (Hamilton product) and quaternion_about_axis is the half-angle form of rotation_matrix, that transform_around is conjugation by the translation and that transform_points is homogeneous multiplication in 2D/3D; the convention tables are bijections; no matrix builder stores into an array that keeps the caller's dtype. The _EPS threshold itself, arctan2 ranges, the eigenvector branch of quaternion_from_matrix, slerp, rotation_from_matrix and compose/decompose are not decided.",
    "Trusted: sympy normal forms; E3 transfer functions; reduction modulo s^2+c^2=1 by substitution; reference fixed by the convention name (static: R_a3 R_a2 R_a1, rotating: R_a1 R_a2 R_a3).",
    "DESIGN.md#c19",
)
NA.pop("C19", None)

CHECKS["C01"] = (
    "other",
    "static analysis: interprocedural read/write effect summaries over access paths (property getters inlined through the MRO) + path-sensitive simulation of Cache surgery on statement CFGs; dominator checks of the verify protocol",
    "Decides history independence of the mesh cache structurally: every cache_decorator producer reads hashed data only; in every function that keeps memo entries across a data change (exclude sets, cache locks, id_set, dict surgery) each surviving entry is re-assigned by that function or independent of what was written (size-only reads survive count-preserving writes); nothing is read from the memo under a lock after data it depends on was written; cache accessors verify before use; normals are transported only under the rotation and conformality guards; companion keys stay together; ray/proximity structures are keyed on the mesh hash. Numerical correctness of transported values and histories that change arrays through routes C02 lists as findings are not decided. Also: a value stored as normals / into a memo is not derived from a local array changed in place afterwards (R10); memo values carried across a data write happen only at reviewed salvage sites (R11); normals assigned through the validating setters follow the data write they belong to (R12); callee-internal stale reads under a caller's lock are reported.",
    "Trusted: the E1 effect model (flow-insensitive aliasing inside a function, role-based receiver typing, frozen tables of mutating / fresh / aliasing external calls), CFG construction, the frozen invariance table; known findings in known_findings.json.",
    "DESIGN.md#c01",
)
NA.pop("C01", None)

CHECKS["C09"] = (
    "other",
    "static analysis: effect analysis (direct stores, stores through local aliases and loop targets, reaching definitions) locates every writer of forest state; CFG dominators / post-dominators decide hash-reset, memo-clear and coupling rules",
    "Decides for all histories the representation invariants SceneGraph.get relies on: every write of EnforcedForest.parents/edge_data/node_data (from inside or outside the class) is covered by a hash reset on every path; topology changes clear the path memo; re-parenting and node removal keep parents and edge_data coupled; the writer set is closed; the transform memo is keyed on the forest hash, stores read-only matrices, is never handed to a copy unverified, and updates are skipped only under an absolute tolerance. The matrix product itself and kwargs_to_matrix numerics are not decided (rotation builders: C19). The matrix stored on an edge is the forest's own array (kwargs_to_matrix never returns a view of its argument) (R8).",
    "Trusted: E1 aliasing model and receiver typing conventions; frozen tables of classified external writers and forest replacers; exceptions between a write and a later reset are not modelled.",
    "DESIGN.md#c09",
)
NA.pop("C09", None)

CHECKS["C14"] = (
    "other",
    "static analysis: read/write effect footprints of the Path producers and path-sensitive simulation of Path._cache surgery (stash/restore, exclude, locks, id_set) on CFGs; frozen affine-invariance and transport tables; algebraic abstract interpretation of arc_center (rational / trigonometric polynomial identities)",
    "Decides the clause 'these quantities transform correctly whatever was computed beforehand' for every history: each cached Path producer reads only state Path.__hash__ covers; in every path function that keeps memo entries across a change of vertices or entities each surviving entry is transported (reviewed table), affine-invariant (reviewed table) and never metric; the cache is verified before such surgery and before raw reads (copy/split/simplify); nothing is read under a cache lock after vertices or entities changed; entity bytes cover points and closed flags; the centre of a three-point arc is its circumcentre (2D and 3D) and the long-arc decision is a positive multiple of cos(span/2) wherever the middle control point sits on the arc, so span does not depend on how an arc was sampled. Invariance under entity permutation, splitting and direction, exact area/length and DXF/SVG round trips are not decided.",
    "Trusted: E1 effect model and typing conventions; the frozen tables AFFINE_INVARIANT / TRANSPORT / accepted unhashed reads (reasons in evidence).",
    "DESIGN.md#c14",
)
NA.pop("C14", None)

CHECKS["C10"] = (
    "other",
    "static analysis: read footprints of cached scene producers vs Scene.__hash__; interprocedural write effects rooted at the source scene (flow-sensitive aliases, held-element refs); class-table implication for hasattr guards",
    "Decides structurally, for all scenes and histories: every cached scene quantity reads only the forest, the geometries and the base frame, all covered by the scene hash; copy / scaled / convert_units / subscene / + / dump / to_mesh / to_geometry / reconstruct_instances have no write effect rooted at the source scene (memo fills, lazily created defaults and the visuals' cache->data normalisation aside); aggregates iterate node instances; a hasattr guard in an aggregate implies the attribute that is read for every geometry class, and element-wise combined per-instance lists share their filter. Composition of nested transforms and numerical equality with explicit placement are not decided.",
    "Trusted: E1 effect model, typing conventions, LAZY_GETTERS table; geometry kinds = in-repo subclasses of parent.Geometry.",
    "DESIGN.md#c10",
)
NA.pop("C10", None)

CHECKS["C17"] = (
    "other",
    "static analysis: ownership classification of every value stored into a copy (constructor arguments, field assignments) with recursive verification of nested copy() methods and of what constructors do with their arguments; table checks of required state and primitive parameters",
    "Decides for every copy / __copy__ / __deepcopy__ in the repository that nothing stored into the new object is a bare reference into the original or a shallow copy of a container with mutable members; that geometry or parameters, visuals and metadata (scenes: geometry, graph, camera) reach the copy; that primitive copies receive every default parameter; and that memo entries are handed to a copy only at the reviewed sites after verification. That later edits leave the other object's computed values unchanged follows from this plus C01 and is not separately observed. Constructor calls with **mapping arguments count as stores; a copy is not built by replaying mutators over fields already copied (R4).",
    "Trusted: naming tables for container / array / scalar attributes (listed in the checker); `.copy()` on an expression of unknown type is taken as an array or value copy; known finding: include_cache=True shares non-array cached objects.",
    "DESIGN.md#c17",
)
NA.pop("C17", None)

CHECKS["C15"] = (
    "other",
    "static analysis: table agreement between each primitive's defaults, its constructor forwarding and the parameters its _create_mesh reads (effect analysis through PrimitiveAttributes into the shared DataStore); footprints of analytic overrides; sign rule on the scale factor; memoisation-leak rule",
    "Decides the clause 'a primitive's mesh always reflects its current parameters' for every parameter edit sequence: parameters live in the hashed store, every one is forwarded by the constructor and read by the lazy mesh builder, the lazy getters use the verifying memo API and cannot be assigned, analytic overrides read parameters only, apply_transform writes parameters only with a factor that cannot be negative, and no module-level memoised helper hands the same array to several meshes. Watertightness, winding and analytic measures of the creation functions are not decided. Array parameters are read through a subclass-preserving conversion so in-place edits dirty the hash (R7); earcut rings follow one convention (R8).",
    "Trusted: E1 effect model; the reading of PrimitiveAttributes.__getattr__/__setattr__; known finding: Capsule ignores `sections`.",
    "DESIGN.md#c15",
)
NA.pop("C15", None)

CHECKS["C07"] = (
    "other",
    "static analysis: structural / CFG-order checks of the two re-indexing funnels and the visuals' update methods, closed-writer-set query over every assignment to faces / vertices of an existing mesh, normal-form check of the merge key, CFG check of stacking offsets",
    "Decides necessary structural conditions of C07 for all masks and meshes: update_faces / update_vertices slice every per-element store (data, normals, attributes, visuals) with the same mask in the order the cache requires; the visuals slice their stored colours / uv and drop derived colour memos; only classified functions re-assign faces or vertices of an existing mesh; merge keys are raw attributes times positive constants rounded once; stacking offsets count the vertices of every preceding group. Triangle positions, order preservation, split/concatenate multiset equality and merge tolerance are not decided. material.pack stores per-mesh UV blocks by mesh index and stacks them in mesh order (R6).",
    "Trusted: the frozen tables COUNT_CHANGERS / SAME_COUNT (reasons in the checker); several sub-rules match the funnels' statements textually after ast normalisation - an edit that rewrites them is reported as a violation of the funnel contract.",
    "DESIGN.md#c07",
)
NA.pop("C07", None)

CHECKS["C08"] = (
    "other",
    "static analysis: interprocedural write-effect summaries rooted at the exported object for every exporter entry point; constant-table extraction and comparison of exporter/loader registries and PLY / glTF / DXF type tables; def-use check of index agreement between cooperating glTF writer sites",
    "Decides 'exporting never modifies the geometry of the object being exported' for every format and option (no write effect rooted at the exported object reaches any exporter), and table-level necessary conditions of round-tripping: every exported type has a loader, writer/reader type tables are mutual inverses and match the glTF componentType codes, STL reader and writer share explicit little-endian record dtypes, glTF node->mesh indices are positions in the emitted list. Element-wise equality of reloaded data is not decided. Face indices are not narrowed by a count (R6); `.format(*array)` templates are sized by that array (R7); the path `dict` writer / reader tables agree and the reader is wired into the load path (R8; Text entities are a recorded finding).",
    "Trusted: E1 effect model (writes through paths cut at the analysis bound are counted in evidence, not judged); exemptions: ColorVisuals cache->data normalisation, lazily derived camera intrinsics, entity traversal direction flags.",
    "DESIGN.md#c08",
)
NA.pop("C08", None)

CHECKS["C18"] = (
    "other",
    "static analysis: write-effect summaries of the repair functions; structural prefix-append checks; polynomial identity (sympy) for the subdivision child table evaluated against the extracted edge layout; control-structure checks of the per-body inversion repair",
    "Decides for all meshes: winding / normal repair (fix_winding, fix_inversion, fix_normals, invert) can write faces only - never vertices, visuals or attributes; fill_holes and subdivide append after the originals; each of subdivide's four children is exactly a quarter of its parent with the parent's orientation and they tile it (so area, winding and signed volume are preserved by construction) and Loop subdivision uses the same connectivity; faces are selected by an idempotent mask; the per-body inversion repair is reached for every watertight mesh and flips exactly the negative-volume bodies. That BFS re-winding reaches consistency, hole detection, Euler number, edge-length bounds and Loop masks are not decided. fill_holes gives up early only below three faces (R6).",
    "Trusted: E1 effect model; sympy expand; the edge layout extracted for C05; several R2/R4/R5 sub-rules match statements textually after ast normalisation.",
    "DESIGN.md#c18",
)
NA.pop("C18", None)

CHECKS["C04"] = (
    "other",
    "static analysis: RANDOM / write-effect summaries over every geometry kind's transform entry points; algebraic abstract interpretation (sympy polynomial identities) of flips_winding, transform_points and the translation / scale matrix builders; canonical-form (reaching-definition inlined) structural rules; cache-surgery simulation shared with C01 / C14",
    "Decides for every matrix and every geometry kind the structural half of covariance: the transformed geometry is a function of the matrix alone (flips_winding's random sample cancels: its projection is det(M)|n|^2 over positive norms, proven as a polynomial identity for symbolic samples); transform_points is exactly p -> M.p + t in 2D / 3D (so composition and inverse laws hold in exact arithmetic for point-like kinds); apply_translation / apply_scale build exactly [I|t] / diag(s,1) and funnel through apply_transform; mesh / point cloud / path store transform_points(own points, M); faces are re-wound exactly under flips_winding(M) (and linear part != I); shortcuts test the whole matrix at <= 1e-8 with a max-norm allclose; scene / voxel / primitive left-multiply; under a scaling matrix every primitive size parameter is multiplied by s and the stored transform satisfies T'.(s p) == M.T.p for every local point; a transform writes positions, winding and centre of mass only; no memo entry that depends on what moved survives. Floating-point closeness, volume / area / inertia scaling values (C03) and primitive re-parameterisation under scale (C15) are not decided.",
    "Trusted: E1 effect model, E3 transfer functions (sa/alg.py), sympy expand / simplify, canonicalisation in sa/provenance.py, the reviewed invariance / transport tables of C01 and C14, the whitelist of max-norm forms for util.allclose (an unknown form is an analysis error, not a verdict).",
    "DESIGN.md#c04",
)
NA.pop("C04", None)

CHECKS["C20"] = (
    "other",
    "static analysis: CFG post-dominance with exception edges (close discipline), who-may-open table, terminating-shape rule per while loop with constant propagation of the end-of-stream value through stream loops, EXITS effect summaries over the loader registries, dominance + integer-kind inference for binary header guards, regex syntax-tree star height",
    "Decides the structural clauses of clean loading for every input: a file opened by _parse_file_args is closed under was_opened on every normal and exceptional path out of load_scene / _load_compressed / load_path, nothing can raise explicitly between the open and the hand-over, every other open / temporary file in loader modules is a with-item; each while loop in the loader modules leaves the loop once its stream is exhausted or makes progress on a finite resource on every path (visited-set discipline for worklists); no registered loader reaches sys.exit / os._exit; the binary STL and PLY bulk reads are dominated by a header-versus-length test computed in Python integers and STL allocations use the validated count; loader regexes have no nested unbounded repetition. Time / memory proportionality in general, third-party parsers and format-inherent expansion (RLE, sparse accessors) are not decided. No for-loop reachable from a loader iterates an unbounded iterator; DXF block definitions are converted without access to other blocks (one level of INSERT expansion).",
    "Trusted: CFG construction with exception edges (inert local bindings cannot raise), the end-of-stream model (read / readline return the empty object, next raises StopIteration), host-interpreter folding of pure str / bytes / list methods, the reviewed who-may-open table, numpy 2 promotion (python int does not widen a fixed-width operand). Unrecognised loop shapes are recorded as undecided.",
    "DESIGN.md#c20",
)
NA.pop("C20", None)

CHECKS["C13"] = (
    "other",
    "static analysis: symbolic evaluation of the run-splitting routines over one run with a symbolic piece count (pattern x count + tail sequence domain, cases r = 0 and r > 0); writer/reader agreement of the binvox header; canonical-form checks of the volume formula and index <-> point maps",
    "Decides four clauses only: (N1) splitting a run of length q*m + r for a count width with maximum m yields pieces that sum to the run, none above m, one value per piece (rle) / an odd number of pieces (brle), for r = 0 and r > 0; (N2) the binvox header is read back line for line with the arity and type it was written with, both sides use one-byte counts and the binary body reaches frombuffer exactly as read; (N3) sparse_indices / sparse_values are overridden together; (V1) volume = filled_count * det(transform[:3,:3]); (V2) indices_to_points is the grid transform, points_to_indices rounds the inverse transform of the same, hash-keyed matrix. That every encoding answers every read like the dense array, and that whole-sequence run-length conversions are lossless, are values of vectorised numpy code and are NOT decided.",
    "Trusted: np.repeat / np.cumsum / fancy assignment act run by run (one run is modelled); transform_points == M.p (C04-R7 / C19-T7); canonicalisation in sa/provenance.py; exact canonical forms of the one-line formulas (a rewrite is reported, not silently accepted).",
    "DESIGN.md#6-build-report",
)
NA.pop("C13", None)

CHECKS["C12"] = (
    "other",
    "static analysis: algebraic abstract interpretation (rational identities over a symbolic triangle, point, plane and line) of the exact geometric routines; canonical-form structural rules for the ray pipeline and the two pruning boxes",
    "Decides only the closed-form and structural clauses: planes_lines returns the point of the line on the plane; points_to_barycentric (cross and Cramer, 2D and 3D) returns coordinates that sum to one and rebuild the projection of the point; in each of the seven regions of triangles.closest_point the result is the vertex / the foot of the perpendicular on the edge line / on the plane; ray_triangle_id accepts exactly the plane hits with all barycentric coordinates in [-tol, 1 + tol], masks triangle index, ray index and location by the same masks, keeps forward hits only and takes the first hit as the smallest ray parameter; the ray box is the outward-padded AABB of two points of the same ray, clamped from below only; the proximity box is point +- (nearest referenced vertex distance + tol.merge). Which region / branch a query falls in, the general-position margins, agreement of both ray engines and with an all-triangles oracle, contains_points parity and signed distance are NOT decided.",
    "Trusted: E3 transfer functions and sympy cancel / together; overrides of the region masks in closest_point (each region is analysed with its mask forced on); canonicalisation in sa/provenance.py; rtree / scipy cKDTree / embree as libraries.",
    "DESIGN.md#6-build-report",
)
NA.pop("C12", None)

CHECKS["C16"] = (
    "other",
    "static analysis: relational rules over hash-consed value graphs (SSA reading of each function, locals / step boundaries / repeated subexpressions factored out), one polynomial identity (E3) and one finite enumeration",
    "Decides only what is in the shape of the code, not what qhull / Voronoi / the optimiser return: whatever candidate the numerical search picks, (B1) the 2D rectangle, its offset and its angle are read at that same candidate, min and max are taken over the same two projections of the same hull points, the second direction is the first rotated by a quarter turn, and planar_matrix(offset, theta) centres those projections (polynomial identity); (B2) the 3D box is centred on the middle of min / max of the points under the very matrix that is returned, height and base rectangle are measured on one projection, the axis re-ordering is a det +1 signed permutation for all six orders and uses the order that re-orders the extents; (B3) every (centre, radius) pair returned by minimum_nsphere has its radius equal to the maximum distance of the points to that very centre, read at the same index and mapped back to world units with the same scale; (B4) the AABB is centred on the mean of the bounds with their spread as extents, the oriented box inverts the to-origin transform, hull vertices are rows of the input and the hull faces are re-indexed by the same vertex selection. Convexity / watertightness / outward winding of qhull output after repair, minimality of any volume, bounding_cylinder and tolerance margins are NOT decided. A value whose shape is not recognised is reported as not decided, never as a violation.",
    "Trusted: value-graph construction in sa/dag.py (reaching definitions, SSA reading of augmented and element assignments, hash-consing), expression templates with commutative matching, E3 transfer functions for planar_matrix, numpy for the six 3x3 permutation matrices.",
    "DESIGN.md#6-build-report",
)
NA.pop("C16", None)

# ---------------------------------------------------------------------------------------------------------------------
# Addenda (second half of the build): rules added after the benign-refactor and round-3 seeded-change experiments, and
# the common policy.  Appended to the claim text of each check so that MANIFEST.json says what the check decides today.
_POLICY = (" A violation is reported only on positive evidence (the shape the rule reasons about is recognised and the relation it demands is broken); a shape that is not "
           "recognised is recorded as `not decided` in the evidence. Before a finding is reported it is re-decided on normal forms of the tree (private helpers inlined, "
           "single-use locals folded, loops over literal tuples unrolled: sa/normalize.py), so that behaviour-preserving refactors do not fire.")
_ADD = {
    "C18": " R8: edges are identified through grouping.unique_rows / group_rows, never through a key packed by hand in the caller's index dtype.",
    "C10": " R9: append_scenes - every container written by the node-renaming closure (remap table, names used by the current scene) is re-created or cleared for each appended scene.",
    "C07": " R7: util.submesh keeps `vertices[unique(faces[index])]` on every path (value graph of the function with private helpers expanded) - the set visual.face_subset keeps per-vertex data for. R1's default inverse is decided per mask kind on the function specialised to a boolean / an integer mask; R3's colour funnels on the value graph.",
    "C03": " O10: the centre-of-mass override is stored as the mesh's own copy (a copying constructor), never as the caller's array - followed through a private helper that does the store.",
    "C01": " R5 (normal transport in apply_transform) is decided on the value graph: the store is guarded by `not allclose(M[:3,:3], I)` and presence in the cache, every non-trivial alternative of its conformality guard contains allclose(L L^T / s, I), the stored value is unitize(transform_points(old normals, M, translate=False)).",
    "C02": " Overrides installed from a table of names after the class body (`for n in NAMES: setattr(TrackedArray, n, factory(n))`) are analysed as the function the factory returns with the name bound: the table is compared with numpy's in-place entry points (R1) and the flag store must dominate the looked-up ndarray call (R2).",
    "C04": " R7 also decides the identity shortcut of transform_points: a max-norm test of the whole matrix at <= 1e-8 (np.allclose / np.isclose with their default relative tolerance are reported). R4's flip guard is compared as normalised (atom, polarity) pairs. R10 treats det(M[:3,:3]) as s**3 (stub of the external call) whatever the locals are called.",
    "C05": " R4's winding verdict of graph.is_watertight is evaluated on a finite model (one group of two equal sorted edges whose end points are symbols compared only for equality): opposed twins -> consistent, same-direction twins -> inconsistent, a collapsed edge (x, x) twice -> consistent.",
    "C06": " R9: an argsort applied to data already permuted by another argsort asks for a stable kind (two-pass two-key sorts). R8 finds the neighbour mask by role (what reaches np.nonzero). R10 (package-wide): row identity is never established on a key packed by hand from two index columns in the array's own dtype (`a[:, 0] * n + a[:, 1]` under np.unique / argsort / searchsorted ...).",
    "C08": " R9: text exporters format numbers with significant digits (`g`, `e`), never with a fixed number of decimals. R10: for every combination of optional blocks the PLY header declares, element by element, the fields of the packed record in the same order and with the same scalar types (container evaluation of export_ply: header template list vs dtype list handed to numpy).",
    "C11": " R13: in mesh_multiplane the normal handed to mesh_plane is unitized and the per-height plane origins and cached distances are built from that same unit normal.",
    "C12": " S / P are decided on SSA value graphs and expression templates (row alignment of the result arrays and of the distances used to pick the first hit). S2: every range test on barycentric coordinates covers all three coordinates. S3: hits are de-duplicated with a key that contains the ray index.",
    "C13": " N4: inside the run-length codecs an array allocated with the dtype of one operand does not receive another operand element-wise (silent narrowing of run values to the count type).",
    "C15": " R9: Extrusion.area == 2 * area(profile) + |height| * total boundary length (holes included), Extrusion.volume == area(profile) * |height|, as terms of the value graph. R10: a hand-written diagonal placement matrix in creation.py has no single entry that can be negative (np.sign(x), a negative constant): it would be a mirror image. R4's refusal of non-rigid results is decided on path summaries.",
    "C16": " B2's axis re-ordering is decided by abstract interpretation in the domain of signed permutation matrices (sign, permutation) for each of the six orders of the extents, whether it is written inline or in a helper. B5: dimension analysis of minimum_nsphere - comparisons against a non-zero constant are made on quantities of length exponent 0 (after the rescaling to a unit cube), quantities compared with each other have equal exponents, what is returned has exponent 1.",
    "C19": " T15: rotation_from_matrix - for R = Rodrigues(angle, unit axis d) and eigenvector d, each of the three magnitude branches hands (sin, cos) of the very angle to arctan2 (numpy.linalg.eig / where / real are stubbed so that the unit eigenvector is d).",
    "C20": " R6: every np.lib.stride_tricks.as_strided window over file bytes spans exactly the `count` its np.frombuffer base was created with (polynomial identity in the values read from the file), or an explicit test of that span against len(data) precedes it.",
}
# round 5 (two cooperating sites / multi-step histories / unusual inputs): rules added after that batch of seeded changes
_ADD5 = {
    "C01": " R13: a value stored by hand into `<o>._cache[key]` depends only on what that cache is keyed on - no read of `<o>.visual` / metadata / attributes reaches it unless the key folds that state in, and a value computed from a method ARGUMENT is not keyed / validated by the argument's shape only. R7: loop variables over containers are not fresh objects (raw reads of their memo need a verification).",
    "C04": " R11: is_rigid compares R R^T - I itself (polynomial identity on a symbolic 4x4): a gram matrix divided by its trace or a row norm accepts similarities, which Primitive.apply_transform relies on being refused.",
    "C06": " R4 also: a value returned outside the range-guarded bit packing is row content unchanged - an arithmetic fold (multiply-add, xor) of the columns is reported as not injective. R11: the default digits are read from tol.merge at call time, never frozen in a module-level constant or default argument of grouping.py.",
    "C08": " R11: the SVG sweep flag of an open arc is sign-equivalent to the orientation of its ordered control points (E3 on a symbolic triple with the circumcentre; refuted by evaluating the extracted rational function at witness triples). R12: an exporter that memoises text on the mesh (`mesh._cache[...]`) does not compute it from mesh.visual / metadata.",
    "C09": " R9: no function that writes the forest re-certifies resolved transforms computed before the write (id_set / replacing the raw memo dict) with a retention filter that looks at one end point of the (frame_from, frame_to) key only.",
    "C10": " R10: as C09-R9 (the scene quantities are computed from the resolved transforms).",
    "C11": " R14: the hole seeds handed to the `triangle` engine are representative points of the hole (a centroid / mean is outside a non-convex hole). R15: every multi-ring result of edges_to_polygons is assembled from enclosure_tree (no containment shortcut; only the empty / single-ring case returns before it).",
    "C12": " P2: the r-tree nearby_faces queries covers every triangle of the mesh in face order (its ids are used as face indices); a tree over a filtered subset is reported, followed through helpers and memo entries.",
    "C13": " N1 also understands `(L - 1) // m` forms and requires the repetition count of the full chunk to be non-negative for every run, the empty run included (Python repeats a list zero times for a negative count). V3: no method of a voxel class keeps memo entries across a write of its hashed data (cache lock / exclude set), except scale, pitch and unit_volume across a store into the translation column.",
    "C14": " A6: SVG sweep flag (as C08-R11). A7: edges_to_polygons passes through enclosure_tree (as C11-R15). A8: with a simple vertex graph every `nodes` implementation of a curved entity routes through an interior control point. R9: hand-written memo stores of path / entity objects (as C01-R13): Arc.length memoised by point indices and the shape of the vertex array is reported.",
    "C15": " R11: hole seeds (as C11-R14). R12: is_rigid (as C04-R11). R13: a creation function that places raw vertices with transform_points and a caller matrix re-winds the faces under flips_winding of that matrix (reported the pinned revolve: fix 39e8724).",
    "C16": " B6: the bounding / hull routines of nsphere.py, bounds.py and convex.py have no write effect through any argument (E1): in particular no in-place rescaling of the vertex array of the object's memoised convex hull, which hull_points returns without a copy.",
    "C17": " R3 also: the reviewed hand-over in Trimesh.copy(include_cache=True) covers the mesh's own memo only; handing the memo of a sub-object (visual: writable generated colours) to the copy is reported.",
    "C18": " R9: Trimesh.subdivide / subdivide_to_size / subdivide_loop return only what the remesh routine of the same name produced (every entry-to-return path passes one of its calls); a shortcut under a bounding-box test is reported.",
    "C19": " T16: is_rigid (as C04-R11).",
    "C20": " R8: no function within two calls of a loader module allocates an array whose length is the largest VALUE of index data (`np.zeros(idx.max() + 1)`) unless that maximum is tested against a length first, in the function or in every caller that can reach the allocation (option guards honoured) - reported the pinned load_obj(maintain_order=True): fix 12bb1d1.",
}
for _pid in list(CHECKS):
    _cat, _tech, _text, _note, _ref = CHECKS[_pid]
    CHECKS[_pid] = (_cat, _tech, _text + _ADD.get(_pid, "") + _ADD5.get(_pid, "") + _POLICY, _note, _ref)
