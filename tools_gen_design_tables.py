#!/venv/bin/python
"""Regenerate the generated parts of DESIGN.md from what the machinery itself wrote:
   section 6.2 (rules as built) from evidence/*.json, and the table of section 6.5 from seeded/MATRIX.md."""
import json
import os
import re

HERE = os.path.dirname(os.path.abspath(__file__))
d = open(os.path.join(HERE, "DESIGN.md")).read()

out = ["### 6.2 Rules as built (from the evidence files of the committed run)", ""]
for i in range(1, 21):
    pid = f"C{i:02d}"
    p = os.path.join(HERE, "evidence", pid + ".json")
    if not os.path.exists(p):
        continue
    ev = json.load(open(p))
    cov = ev["coverage"]
    extra = []
    if cov.get("obligations"):
        extra.append(f"{cov.get('discharged')} obligations discharged")
    if cov.get("known_findings_matched"):
        extra.append(f"{len(cov['known_findings_matched'])} known finding(s)")
    und = sum(1 for a in ev.get("assumptions", []) if "not decided" in a or "NOT decided" in a or "not in a recognised form" in a)
    if und:
        extra.append(f"{und} clause(s) not decided on this tree")
    out.append(f"**{pid}** — level `{ev['level']}`, {cov['evaluations']} rule instances ({cov['distinct_nontrivial']} distinct non-trivial)" + (", " + ", ".join(extra) if extra else ""))
    out.append("")
    for rid, n in cov.get("instances_by_rule", {}).items():
        out.append(f"* `{rid}` ({n}): {cov.get('rules', {}).get(rid, '')}")
    out.append("")
a = d.index("### 6.2 Rules as built")
b = d.index("### 6.3 False alarms met while building")
d = d[:a] + "\n".join(out) + "\n" + d[b:]

m = open(os.path.join(HERE, "seeded", "MATRIX.md")).read().strip()
a = d.index("| change | round | what it does | reported by | own check |")
rest = d[a:]
end = re.search(r"\n(?!\|)", rest).start()
d = d[:a] + m + d[a + end:]
open(os.path.join(HERE, "DESIGN.md"), "w").write(d)
print("DESIGN.md: section 6.2 and the table of 6.5 regenerated")
