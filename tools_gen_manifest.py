"""Regenerates MANIFEST.json from the CHECKS table below (kept in one place so the
manifest stays valid while checks are added).  Run: /venv/bin/python tools_gen_manifest.py"""
import json, os

HERE = os.path.dirname(os.path.abspath(__file__))
BASELINE = "cd /repo && /venv/bin/python -m pytest -ra -q -p no:cacheprovider --timeout=900 --continue-on-collection-errors"

# id -> (category, technique, level text, note, design_ref)
CHECKS = {}
NA = {}
exec(open(os.path.join(HERE, "manifest_table.py")).read())

man = {
    "version": 1,
    "setup_cmd": "/venv/bin/python -c \"import ast, networkx, sympy, numpy; print('static-analysis toolchain ok')\"",
    "hooks": {
        "guard": "MIKEDH_TRIMESH_VERIF",
        "enable": "none needed: the checks are static and read /repo's working tree; no instrumentation exists",
        "baseline_off_cmd": BASELINE,
        "source_commits": [],
        "add_only": True,
    },
    "engines": [
        {"name": "E0 program index", "path": "sa/index.py", "serves_properties": sorted(CHECKS),
         "kind_free_text": "ast-based index of modules, classes (C3 MRO), properties/cache_decorator members, imports, constants"},
        {"name": "E2 CFG", "path": "sa/cfg.py", "serves_properties": [k for k in sorted(CHECKS)],
         "kind_free_text": "statement-level CFG with exceptional edges and duplicated finally bodies; dominators, post-dominators, bounded path enumeration (networkx)"},
    ],
    "checks": [],
    "not_applicable": [],
    "notes": "All checks are static analysis of /repo/trimesh as found on disk at run time (ast / CFG / effect summaries / table extraction / polynomial normal forms); none imports or runs trimesh. Exit 0 held, 1 VIOLATION, 2 ANALYSIS-ERROR (analysis cannot be trusted). Known findings: known_findings.json.",
}
for pid in sorted(CHECKS):
    cat, tech, text, note, ref = CHECKS[pid]
    man["checks"].append({
        "property_id": pid,
        "quick_cmd": f"./check {pid} --tier quick",
        "thorough_cmd": f"./check {pid} --tier thorough",
        "evidence_file": f"/verif/evidence/{pid}.json",
        "replay_cmd_template": f"./check {pid} --replay {{path}}",
        "engine": "sa",
        "level_claimed": {"category": cat, "text": text, "design_ref": ref},
        "level_note": note,
        "technique": tech,
    })
for pid in sorted(NA):
    man["not_applicable"].append({"property_id": pid, "reason": NA[pid]})
json.dump(man, open(os.path.join(HERE, "MANIFEST.json"), "w"), indent=1)
print("checks:", [c["property_id"] for c in man["checks"]], "n/a:", sorted(NA))
