"""Regenerates MANIFEST.json from the CHECKS table below (kept in one place so the
manifest stays valid while checks are added).  Run: /venv/bin/python tools_gen_manifest.py"""
import json, os

HERE = os.path.dirname(os.path.abspath(__file__))
BASELINE = "cd /repo && /venv/bin/python -m pytest -ra -q -p no:cacheprovider --timeout=900 --continue-on-collection-errors"

# id -> (category, technique, level text, note, design_ref)
CHECKS = {}
NA = {}
exec(open(os.path.join(HERE, "manifest_table.py")).read())

man = {
    "version": 1,
    "setup_cmd": "/venv/bin/python -c \"import ast, networkx, sympy, numpy; print('static-analysis toolchain ok')\"",
    "hooks": {
        "guard": "MIKEDH_TRIMESH_VERIF",
        "enable": "none needed: the checks are static and read /repo's working tree; no instrumentation exists",
        "baseline_off_cmd": BASELINE,
        "source_commits": [],
        "add_only": True,
    },
    "engines": [
        {"name": "E0 program index", "path": "sa/index.py", "serves_properties": sorted(CHECKS),
         "kind_free_text": "ast-based index of modules, classes (C3 MRO), properties/cache_decorator members, imports, constants"},
        {"name": "E1 effects", "path": "sa/effects.py", "serves_properties": ["C01", "C04", "C07", "C08", "C09", "C10", "C14", "C15", "C17", "C18", "C20"],
         "kind_free_text": "interprocedural read/write/alias/effect (RANDOM, OPENS, EXITS) summaries over access paths, getters inlined through the MRO, flow-sensitive second phase; sa/cachesim.py simulates Cache surgery per CFG path; sa/preserve.py, sa/rawreads.py share obligations"},
        {"name": "E2 CFG", "path": "sa/cfg.py", "serves_properties": ["C01", "C02", "C04", "C07", "C09", "C10", "C11", "C14", "C17", "C18", "C20"],
         "kind_free_text": "statement-level CFG with exceptional edges and duplicated finally bodies; dominators, post-dominators, bounded path enumeration, reaching definitions (networkx)"},
        {"name": "E3 algebraic interpreter", "path": "sa/alg.py", "serves_properties": ["C03", "C04", "C10", "C14", "C18", "C19"],
         "kind_free_text": "AST -> sympy expressions in numpy object arrays; decision tables, overrides, trace, stubs; identities decided by polynomial normal forms (no solver). sa/interval.py: path-splitting interval domain with dtype overflow (C06)"},
        {"name": "E4 tables / layout", "path": "sa/tables.py", "serves_properties": ["C05", "C08", "C11", "C18", "C19"],
         "kind_free_text": "constant tables and registries evaluated from module-level statements; face->edge layout and child-table extraction (sa/layout.py)"},
        {"name": "E5 canonical forms", "path": "sa/provenance.py", "serves_properties": ["C04", "C05", "C11", "C19", "C20"],
         "kind_free_text": "reaching-definition inlining, callee resolution, cast stripping, stop names, enclosing guards, emptiness-guard recogniser: structural rules independent of local names and import aliases"},
        {"name": "E6 end-of-stream evaluation", "path": "sa/eofeval.py", "serves_properties": ["C20"],
         "kind_free_text": "constant propagation of the EOF value through read loops; every back edge must consume a finite resource"},
        {"name": "shared rule modules (round 5)", "path": "sa/memostore.py", "serves_properties": ["C01", "C04", "C08", "C09", "C10", "C11", "C14", "C15", "C18", "C19"],
         "kind_free_text": "rules used by several checks: sa/memostore.py (hand-written memo stores: backward data slice of the stored value), sa/passthrough.py (must-pass-through by CFG path cut), sa/svgarc.py (SVG sweep flag vs orientation, E3 + witness evaluation of the extracted rational function), sa/rigidrule.py (is_rigid verdict array == R R^T - I), sa/scenerecert.py (scene memo re-certification across forest writes), sa/interiorpt.py (hole seeds are interior points)"},
        {"name": "self-test harness", "path": "sa/selftest.py", "serves_properties": sorted(CHECKS),
         "kind_free_text": "mutant / benign variants (mutants/*.json) and seeded changes (seeded/*) applied to scratch copies under $TMPDIR; run by --tier thorough, results in evidence"},
    ],
    "checks": [],
    "not_applicable": [],
    "notes": "All checks are static analysis of /repo/trimesh as found on disk at run time (ast / CFG / effect summaries / table extraction / polynomial normal forms); none imports or runs trimesh. Exit 0 held, 1 VIOLATION, 2 ANALYSIS-ERROR (analysis cannot be trusted). Known findings: known_findings.json.",
}
for pid in sorted(CHECKS):
    cat, tech, text, note, ref = CHECKS[pid]
    man["checks"].append({
        "property_id": pid,
        "quick_cmd": f"./check {pid} --tier quick",
        "thorough_cmd": f"./check {pid} --tier thorough",
        "evidence_file": f"/verif/evidence/{pid}.json",
        "replay_cmd_template": f"./check {pid} --replay {{path}}",
        "engine": "sa",
        "level_claimed": {"category": cat, "text": text, "design_ref": ref},
        "level_note": note,
        "technique": tech,
    })
for pid in sorted(NA):
    man["not_applicable"].append({"property_id": pid, "reason": NA[pid]})
json.dump(man, open(os.path.join(HERE, "MANIFEST.json"), "w"), indent=1)
print("checks:", [c["property_id"] for c in man["checks"]], "n/a:", sorted(NA))
